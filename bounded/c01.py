"""Bounded run-time-contract obligations for C01 (parsing is faithful).

Contract on `PyDBML(source)`:
    requires  source == surface(m, sp)        (m abstract model, sp spelling choices; spec/surface.py)
    ensures   view(result) == normalize(m)    (spec/model.py)

A failing case is reduced inside `check` (spelling labels by delta debugging, then the model by
greedy deletion) so that the key names the mechanism:
    rejected:<exception class>:<culprit>      the well-formed document is refused
    field-mismatch:<path>:<culprit>           the parsed database differs from what is declared
where <culprit> is the set of spelling decisions ("dim@site" labels of spec/surface.py) that have to
be non-canonical for the failure to show, or `model=<feature tags of the reduced model>` when the
failure shows in the canonical (documentation) spelling too.
"""
from __future__ import annotations

import copy
import itertools
import random
import re
from typing import Any, Callable, Dict, List, Optional, Tuple

from lib.bounded import BObl
from spec.gen import random_model, ELEMENT_KINDS, feature_subsets, element_model
from spec.model import view, normalize, diff
from spec.surface import surface_ex, SurfaceError

Sig = Tuple[str, str]


def parse_real(text: str, allow: bool):
    from pydbml import PyDBML
    return PyDBML(text, allow_properties=allow) if allow else PyDBML(text)


_FAST: Dict[bool, Any] = {}


def parse_fast(text: str, allow: bool):
    """Same grammar, parse actions and build phase as PyDBML(text), but the (expensive) copy of the grammar is
    made once per process.  Used only while *reducing* a failure that the official entry point has already
    shown; every reported failure is confirmed through `parse_real` again."""
    try:
        from pydbml.parser.parser import PyDBMLParser
        p = _FAST.get(allow)
        if p is None:
            p = PyDBMLParser('', allow_properties=allow)
            p._set_syntax()
            _FAST[allow] = p
        p.source = text
        p.database = None
        p.ref_blueprints, p.table_groups, p.tables, p.refs, p.enums, p.sticky_notes = [], [], [], [], [], []
        p.project = None
        syntax = p._syntax
    except Exception:
        return parse_real(text, allow)
    if text[:1] == '\ufeff':
        text = text[1:]
    syntax.parse_string(text, parse_all=True)
    p.build_database()
    return p.database


def _path(d: str) -> str:
    p = d.split(':', 1)[0]
    p = re.sub(r'\[\d+\]', '', p).strip('.')
    return p


def evaluate(m: Dict[str, Any], sp: Any, ignore=(), fast: bool = False) -> Tuple[Optional[Sig], str, List[str], str]:
    """(signature or None, text, non-canonical labels, detail).  Mismatch paths in `ignore` are skipped."""
    text, used = surface_ex(m, sp)
    try:
        db = (parse_fast if fast else parse_real)(text, m['allow_properties'])
        v = view(db)
    except Exception as e:  # the code under test refused (or crashed on) a well-formed document
        return ('rejected', type(e).__name__), text, used, f'{type(e).__name__}: {str(e)[:160]}'
    if v != m:
        ds = diff(v, m)
        paths = sorted({_path(d) for d in ds} - set(ignore))
        if paths:
            return (('field-mismatch', paths[0]), text, used,
                    '; '.join(d for d in ds if _path(d) == paths[0])[:300] + ' (observed != declared)')
    return None, text, used, ''


def _same(sig: Optional[Sig], target: Sig) -> bool:
    return sig is not None and sig == target


def minimize_labels(m, sp: Dict[str, Any], target: Sig, used: List[str], budget: int = 150, ignore=()) -> List[str]:
    """Smallest set of spelling labels that must stay free for `target` to persist (ddmin)."""
    base_pin = list(sp.get('pin', []))

    def fails(free: List[str]) -> bool:
        pin = base_pin + [l for l in used if l not in free]
        s, _t, _u, _d = evaluate(m, dict(sp, pin=pin), ignore, fast=True)
        return _same(s, target)

    tests = 0
    free = list(used)
    if fails([]):
        return []
    n = 2
    while len(free) >= 2 and tests < budget:
        chunk = max(1, len(free) // n)
        subsets = [free[i:i + chunk] for i in range(0, len(free), chunk)]
        reduced = False
        for sub in subsets:
            tests += 1
            if fails(sub):
                free, n, reduced = sub, 2, True
                break
        if not reduced:
            for sub in subsets:
                comp = [l for l in free if l not in sub]
                if not comp:
                    continue
                tests += 1
                if fails(comp):
                    free, n, reduced = comp, max(n - 1, 2), True
                    break
        if not reduced:
            if n >= len(free):
                break
            n = min(len(free), n * 2)
    return free


# ---- model reduction

def _drop_table(m, i):
    t = m['tables'][i]
    key = [t['schema'], t['name']]
    if len(m['tables']) == 1:
        return None
    m2 = copy.deepcopy(m)
    del m2['tables'][i]
    m2['refs'] = [r for r in m2['refs'] if r['t1'] != key and r['t2'] != key]
    for g in m2['table_groups']:
        g['items'] = [k for k in g['items'] if k != key]
    m2['table_groups'] = [g for g in m2['table_groups'] if g['items']]
    return m2


def _drop_column(m, i, j):
    t = m['tables'][i]
    if len(t['columns']) == 1:
        return None
    key = [t['schema'], t['name']]
    name = t['columns'][j]['name']
    m2 = copy.deepcopy(m)
    del m2['tables'][i]['columns'][j]
    m2['refs'] = [r for r in m2['refs'] if not ((r['t1'] == key and name in r['c1']) or (r['t2'] == key and name in r['c2']))]
    m2['tables'][i]['indexes'] = [ix for ix in m2['tables'][i]['indexes']
                                  if not any(s.get('col') == name for s in ix['subjects'])]
    return m2


def _drop_enum(m, i):
    e = m['enums'][i]
    key = [e['schema'], e['name']]
    m2 = copy.deepcopy(m)
    del m2['enums'][i]
    for t in m2['tables']:
        for c in t['columns']:
            if isinstance(c['type'], dict) and c['type']['enum'] == key:
                c['type'] = 'int'
    return m2


_COL_DEFAULTS = {'unique': False, 'not_null': False, 'pk': False, 'autoinc': False, 'default': None, 'note': None,
                 'comment': None, 'properties': []}
_TAB_DEFAULTS = {'alias': None, 'note': None, 'header_color': None, 'comment': None, 'properties': [], 'indexes': []}
_IDX_DEFAULTS = {'name': None, 'unique': False, 'type': None, 'pk': False, 'note': None, 'comment': None}
_REF_DEFAULTS = {'name': None, 'comment': None, 'on_update': None, 'on_delete': None}


def _rename(m, kind, i, j=None):
    """Replace an identifier by a plain fresh word everywhere it is used."""
    m2 = copy.deepcopy(m)
    if kind == 'table':
        t = m2['tables'][i]
        old = [t['schema'], t['name']]
        new = [t['schema'], f'tb{i}']
        if new == old or re.match(r'^tb\d+$', t['name']):
            return None
        t['name'] = new[1]
        for r in m2['refs']:
            for e in ('t1', 't2'):
                if r[e] == old:
                    r[e] = new
        for g in m2['table_groups']:
            g['items'] = [new if k == old else k for k in g['items']]
    elif kind == 'column':
        t = m2['tables'][i]
        key = [t['schema'], t['name']]
        old = t['columns'][j]['name']
        new = f'c{j}'
        if re.match(r'^c\d+$', old) or any(c['name'] == new for c in t['columns']):
            return None
        t['columns'][j]['name'] = new
        for r in m2['refs']:
            if r['t1'] == key:
                r['c1'] = [new if c == old else c for c in r['c1']]
            if r['t2'] == key:
                r['c2'] = [new if c == old else c for c in r['c2']]
        for ix in t['indexes']:
            for sj in ix['subjects']:
                if sj.get('col') == old:
                    sj['col'] = new
    elif kind in ('enum', 'enum_schema', 'enum_name', 'enum_schema_plain'):
        e = m2['enums'][i]
        old = [e['schema'], e['name']]
        new = {'enum': ['public', f'en{i}'], 'enum_schema': ['public', e['name']], 'enum_name': [e['schema'], f'en{i}'],
               'enum_schema_plain': ['sc0', e['name']]}[kind]
        if kind == 'enum_schema_plain' and (e['schema'] == 'public' or re.match(r'^[A-Za-z_][A-Za-z0-9_]*$', e['schema'])):
            return None
        if old == new or any(x is not e and [x['schema'], x['name']] == new for x in m2['enums']):
            return None
        e['schema'], e['name'] = new
        for t in m2['tables']:
            for c in t['columns']:
                if isinstance(c['type'], dict) and c['type']['enum'] == old:
                    c['type'] = {'enum': new}
    elif kind == 'item':
        e = m2['enums'][i]
        new = f'it{j}'
        if re.match(r'^it\d+$', e['items'][j]['name']) or any(x['name'] == new for x in e['items']):
            return None
        e['items'][j]['name'] = new
    elif kind in ('table_groups', 'sticky_notes'):
        o = m2[kind][i]
        new = f'{kind[0]}{i}'
        if o['name'] == new or any(x['name'] == new for x in m2[kind]):
            return None
        o['name'] = new
    elif kind == 'project':
        if m2['project']['name'] == 'p':
            return None
        m2['project']['name'] = 'p'
    elif kind == 'table_schema_plain':
        t = m2['tables'][i]
        if t['schema'] == 'public' or re.match(r'^[A-Za-z_][A-Za-z0-9_]*$', t['schema']):
            return None
        old = [t['schema'], t['name']]
        new = ['sc0', t['name']]
        if any([x['schema'], x['name']] == new for x in m2['tables']):
            return None
        t['schema'] = 'sc0'
        for r in m2['refs']:
            for e in ('t1', 't2'):
                if r[e] == old:
                    r[e] = new
        for g in m2['table_groups']:
            g['items'] = [new if k == old else k for k in g['items']]
    elif kind == 'alias':
        t = m2['tables'][i]
        new = f'al{i}'
        if not t['alias'] or t['alias'] == new:
            return None
        t['alias'] = new
    return m2


def _candidates(m, fine=True):
    """Smaller models, coarse first."""
    for i in range(len(m['tables']) - 1, -1, -1):
        yield lambda i=i: _drop_table(m, i)
    for kind in ('refs', 'table_groups', 'sticky_notes'):
        for i in range(len(m[kind]) - 1, -1, -1):
            def f(kind=kind, i=i):
                m2 = copy.deepcopy(m)
                del m2[kind][i]
                return m2
            yield f
    for i in range(len(m['enums']) - 1, -1, -1):
        yield lambda i=i: _drop_enum(m, i)
    if m['project']:
        def fp():
            m2 = copy.deepcopy(m)
            m2['project'] = None
            return m2
        yield fp
    for i, t in enumerate(m['tables']):
        for j in range(len(t['columns']) - 1, -1, -1):
            yield lambda i=i, j=j: _drop_column(m, i, j)
        for j in range(len(t['indexes']) - 1, -1, -1):
            def fi(i=i, j=j):
                m2 = copy.deepcopy(m)
                del m2['tables'][i]['indexes'][j]
                return m2
            yield fi
    if not fine:
        return

    def setter(path, key, val):
        def f():
            m2 = copy.deepcopy(m)
            o = m2
            for p in path:
                o = o[p]
            if o[key] == val:
                return None
            o[key] = val
            return m2
        return f
    for i, t in enumerate(m['tables']):
        for k, v in _TAB_DEFAULTS.items():
            if k != 'alias' and k != 'indexes':
                yield setter(['tables', i], k, v)
        if t['schema'] != 'public':
            def fs(i=i, t=t):
                m2 = copy.deepcopy(m)
                old = [t['schema'], t['name']]
                if any(x['schema'] == 'public' and x['name'] == t['name'] for x in m['tables']):
                    return None
                m2['tables'][i]['schema'] = 'public'
                new = ['public', t['name']]
                for r in m2['refs']:
                    for e in ('t1', 't2'):
                        if r[e] == old:
                            r[e] = new
                for g in m2['table_groups']:
                    g['items'] = [new if k == old else k for k in g['items']]
                return m2
            yield fs
        yield setter(['tables', i], 'alias', None)
        for j, c in enumerate(t['columns']):
            for k, v in _COL_DEFAULTS.items():
                yield setter(['tables', i, 'columns', j], k, v)
            if c['type'] != 'int':
                yield setter(['tables', i, 'columns', j], 'type', 'int')
        for j, ix in enumerate(t['indexes']):
            for k, v in _IDX_DEFAULTS.items():
                yield setter(['tables', i, 'indexes', j], k, v)
            if len(ix['subjects']) > 1:
                for s in range(len(ix['subjects'])):
                    def fsub(i=i, j=j, s=s):
                        m2 = copy.deepcopy(m)
                        del m2['tables'][i]['indexes'][j]['subjects'][s]
                        return m2
                    yield fsub
    for i, r in enumerate(m['refs']):
        if not r['inline']:
            for k, v in _REF_DEFAULTS.items():
                yield setter(['refs', i], k, v)
        if len(r['c1']) > 1:
            for k in range(len(r['c1'])):
                def fr(i=i, k=k):
                    m2 = copy.deepcopy(m)
                    del m2['refs'][i]['c1'][k]
                    del m2['refs'][i]['c2'][k]
                    return m2
                yield fr
    for i, e in enumerate(m['enums']):
        yield setter(['enums', i], 'comment', None)
        for j in range(len(e['items']) - 1, -1, -1):
            if len(e['items']) > 1:
                def fe(i=i, j=j):
                    m2 = copy.deepcopy(m)
                    del m2['enums'][i]['items'][j]
                    return m2
                yield fe
            yield setter(['enums', i, 'items', j], 'note', None)
            yield setter(['enums', i, 'items', j], 'comment', None)
    for i, g in enumerate(m['table_groups']):
        for k in ('comment', 'note', 'color'):
            yield setter(['table_groups', i], k, None)
        if len(g['items']) > 1:
            for j in range(len(g['items'])):
                def fg(i=i, j=j):
                    m2 = copy.deepcopy(m)
                    del m2['table_groups'][i]['items'][j]
                    return m2
                yield fg
    if m['project']:
        yield setter(['project'], 'note', None)
        yield setter(['project'], 'comment', None)
        for j in range(len(m['project']['items'])):
            def fpi(j=j):
                m2 = copy.deepcopy(m)
                del m2['project']['items'][j]
                return m2
            yield fpi
        yield lambda: _rename(m, 'project', 0)
    for i, t in enumerate(m['tables']):
        yield lambda i=i: _rename(m, 'table', i)
        yield lambda i=i: _rename(m, 'table_schema_plain', i)
        yield lambda i=i: _rename(m, 'alias', i)
        for j in range(len(t['columns'])):
            yield lambda i=i, j=j: _rename(m, 'column', i, j)
    for i, e in enumerate(m['enums']):
        for how in ('enum', 'enum_schema', 'enum_name', 'enum_schema_plain'):
            yield lambda i=i, how=how: _rename(m, how, i)
        for j in range(len(e['items'])):
            yield lambda i=i, j=j: _rename(m, 'item', i, j)
    for kind in ('table_groups', 'sticky_notes'):
        for i in range(len(m[kind])):
            yield lambda kind=kind, i=i: _rename(m, kind, i)


def minimize_model(m, test: Callable[[Dict[str, Any]], bool], max_tests: int, fine: bool = True) -> Dict[str, Any]:
    """Greedy deletion to a fixpoint (or until `max_tests` candidate models have been tried: a count, not a
    clock, so that the result does not depend on machine load).  After a successful step the scan goes on from
    the same position in the candidate list of the new model (earlier candidates have just been refused)."""
    pos = 0
    progress = False
    tests = 0
    while tests < max_tests:
        cands = list(_candidates(m, fine))
        if pos >= len(cands):
            if not progress:
                break
            pos, progress = 0, False
            continue
        stepped = False
        for i in range(pos, len(cands)):
            if tests >= max_tests:
                return m
            try:
                m2 = cands[i]()
            except Exception:
                m2 = None
            if m2 is None:
                continue
            tests += 1
            try:
                ok = test(m2)
            except SurfaceError:
                ok = False
            if ok:
                m, pos, progress, stepped = m2, i, True, True
                break
        if not stepped:
            if not progress:
                break
            pos, progress = 0, False
    return m


def _chars(s: str) -> List[str]:
    tags = []
    if '\\' in s:
        tags.append('backslash')
    if "'''" in s:
        tags.append('q3')
    elif "'" in s:
        tags.append('q1')
    if '"' in s:
        tags.append('dq')
    if '\n' in s:
        tags.append('nl')
    if any(ord(ch) > 127 for ch in s):
        tags.append('nonascii')
    if '//' in s or '/*' in s:
        tags.append('slashes')
    return tags


def model_tags(m: Dict[str, Any]) -> List[str]:
    """Feature tags of a (reduced) model: which optional things are present."""
    tags = set()

    def ident(name, where):
        punct = [cls for cls, chars in (('dot', '.'), ('comma', ','), ('paren', '()'), ('colon', ':'), ('squote', "'"),
                                        ('bracket', '[]'), ('brace', '{}')) if any(ch in name for ch in chars)]
        if name != name.strip():
            punct.append('edge-space')
        if punct:
            tags.add(f'{where}.name:' + '+'.join(punct))
        elif not re.match(r'^[A-Za-z_][A-Za-z0-9_]*$', name):
            tags.add(f'{where}.name:quoted')
        elif name.lower() in ('table', 'note', 'ref', 'indexes', 'enum', 'project'):
            tags.add(f'{where}.name:reserved')

    for t in m['tables']:
        ident(t['name'], 'table')
        if t['schema'] != 'public':
            tags.add('table.schema:dot' if '.' in t['schema'] else 'table.schema')
        if t['alias']:
            ident(t['alias'], 'alias')
        for k in ('alias', 'note', 'header_color', 'comment'):
            if t[k] is not None:
                tags.add(f'table.{k}')
        if t['properties']:
            tags.add('table.properties')
        for c in t['columns']:
            ident(c['name'], 'col')
            for k in ('unique', 'not_null', 'pk', 'autoinc'):
                if c[k]:
                    tags.add(f'col.{k}')
            if c['default'] is not None:
                d = c['default']
                tags.add('col.default:' + ('null' if d == {'kind': 'str', 'value': 'NULL'} else d['kind']))
            if c['note'] is not None:
                tags.add('col.note')
            if c['comment'] is not None:
                tags.add('col.comment')
            if c['properties']:
                tags.add('col.properties')
            if isinstance(c['type'], dict):
                tags.add('col.type:enum')
            elif c['type'] != 'int':
                ty = c['type']
                tags.add('col.type:' + ('array' if ty.endswith('[]') else 'args-space' if '(' in ty and ' ' in ty
                                        else 'args' if '(' in ty else 'quoted' if ' ' in ty else 'word'))
        for ix in t['indexes']:
            tags.add('index')
            if len(ix['subjects']) > 1:
                tags.add('index.composite')
            if any('expr' in s for s in ix['subjects']):
                tags.add('index.expr')
            for k in ('name', 'type', 'note', 'comment'):
                if ix[k] is not None:
                    tags.add(f'index.{k}')
            for k in ('unique', 'pk'):
                if ix[k]:
                    tags.add(f'index.{k}')
    for r in m['refs']:
        tags.add('ref.inline' if r['inline'] else 'ref')
        if len(r['c1']) > 1:
            tags.add('ref.composite')
        for k in ('name', 'comment', 'on_update', 'on_delete'):
            if r[k] is not None:
                tags.add(f'ref.{k}')
    for e in m['enums']:
        tags.add('enum')
        ident(e['name'], 'enum')
        if e['schema'] != 'public':
            tags.add('enum.schema:dot' if '.' in e['schema'] else 'enum.schema')
        if e['comment'] is not None:
            tags.add('enum.comment')
        for it in e['items']:
            ident(it['name'], 'item')
            if it['note'] is not None:
                tags.add('item.note')
            if it['comment'] is not None:
                tags.add('item.comment')
    for g in m['table_groups']:
        tags.add('group')
        for k in ('comment', 'note', 'color'):
            if g[k] is not None:
                tags.add(f'group.{k}')
    if m['sticky_notes']:
        tags.add('sticky')
    if m['project']:
        tags.add('project')
        if m['project']['items']:
            tags.add('project.items')
        if m['project']['note'] is not None:
            tags.add('project.note')
        if m['project']['comment'] is not None:
            tags.add('project.comment')
    return sorted(tags)


def _culprit_name(culprits: List[str], m_min, sig: Sig) -> str:
    if len(culprits) > 3:
        return 'spelling=' + '+'.join(sorted({c.split('@')[0] for c in culprits}))[:60]
    if culprits:
        return '+'.join(sorted(culprits))
    tags = model_tags(m_min)
    if sig[0] == 'field-mismatch':
        # keep the tags of the element kind the path points at
        head = {'tables': ('table', 'col', 'index'), 'refs': ('ref',), 'enums': ('enum', 'item'),
                'table_groups': ('group',), 'project': ('project',), 'sticky_notes': ('sticky',)}
        want = head.get(sig[1].split('.')[0], ())
        narrowed = [t for t in tags if t.split('.')[0].split(':')[0] in want]
        tags = narrowed or tags
    return 'model=' + '+'.join(tags)[:90]


def _strip_table(t):
    return {'schema': t['schema'], 'name': t['name'], 'alias': t['alias'],
            'columns': [{'name': c['name'], 'type': 'int'} for c in t['columns']]}


def _closures(m):
    """Sub-models holding one top-level element plus bare versions of what it refers to."""
    tabs = {(t['schema'], t['name']): t for t in m['tables']}
    enums = {(e['schema'], e['name']): e for e in m['enums']}

    def base(**kw):
        d = {'allow_properties': m['allow_properties'], 'project': None, 'enums': [], 'tables': [], 'refs': [],
             'table_groups': [], 'sticky_notes': []}
        d.update(kw)
        return normalize(d)

    def with_tables(keys, full=None):
        out = []
        for t in m['tables']:           # keep source order
            k = (t['schema'], t['name'])
            if full is not None and k == full:
                out.append(copy.deepcopy(t))
            elif k in keys:
                out.append(_strip_table(t))
        return out

    for t in m['tables']:
        k = (t['schema'], t['name'])
        refs = [copy.deepcopy(r) for r in m['refs'] if r['inline'] and tuple(r['t1']) == k]
        need = {tuple(r['t2']) for r in refs}
        es = []
        for c in t['columns']:
            if isinstance(c['type'], dict):
                e = enums[tuple(c['type']['enum'])]
                e2 = {'schema': e['schema'], 'name': e['name'], 'items': [{'name': i['name']} for i in e['items']]}
                if e2 not in es:
                    es.append(e2)
        yield 'tables', base(tables=with_tables(need, k), refs=refs, enums=es)
    for e in m['enums']:
        yield 'enums', base(enums=[copy.deepcopy(e)])
    for r in m['refs']:
        if not r['inline']:
            yield 'refs', base(tables=with_tables({tuple(r['t1']), tuple(r['t2'])}), refs=[copy.deepcopy(r)])
    for g in m['table_groups']:
        yield 'table_groups', base(tables=with_tables({tuple(k) for k in g['items']}), table_groups=[copy.deepcopy(g)])
    for n in m['sticky_notes']:
        yield 'sticky_notes', base(sticky_notes=[copy.deepcopy(n)])
    if m['project']:
        yield 'project', base(project=copy.deepcopy(m['project']))


def localize(m, sp, sig: Sig, ignore=()) -> Dict[str, Any]:
    """A sub-model with one top-level element (plus bare dependencies) that shows the same failure, else a
    greedily reduced model."""
    hint = sig[1].split('.')[0] if sig[0] == 'field-mismatch' else None
    cands = list(_closures(m))
    if hint:
        cands.sort(key=lambda kc: kc[0] != hint)
    for _kind, m2 in cands:
        try:
            if _same(evaluate(m2, sp, ignore, fast=True)[0], sig):
                return m2
        except SurfaceError:
            continue
    return minimize_model(m, lambda m2: _same(evaluate(m2, sp, ignore, fast=True)[0], sig), 40, fine=False)


def reduce_failure(m, sp, sig: Sig, ignore=()):
    """(m_min, sp_min, culprits): reduced model, spelling with every irrelevant decision canonical, and the
    labels of the decisions that matter ([] = fails in documentation spelling)."""
    m_c = localize(m, sp, sig, ignore)
    s_c, _t, used_c, _d = evaluate(m_c, sp, ignore, fast=True)
    if not _same(s_c, sig):
        m_c = m
        used_c = evaluate(m, sp, ignore, fast=True)[2]
    culprits = minimize_labels(m_c, sp, sig, list(used_c), ignore=ignore)
    base = {'seed': sp.get('seed', 0), 'force': dict(sp.get('force', {}))}
    if 'wild' in sp:
        base['wild'] = sp['wild']
    sp_min = dict(base, free=list(culprits))
    if not _same(evaluate(m_c, sp_min, ignore, fast=True)[0], sig):
        return m_c, sp, sorted(used_c)           # reduction not stable: keep the spelling as it is
    # make the culprit decisions independent of element names: force the option that was taken
    forced = dict(base['force'])
    for l in culprits:
        opts = used_c.get(l, [])
        if len(opts) == 1 and opts[0] != 'perm':
            forced[l] = opts[0]
    if forced != base['force']:
        sp_try = dict(base, free=list(culprits), force=forced)
        if _same(evaluate(m_c, sp_try, ignore, fast=True)[0], sig):
            sp_min = sp_try
    m_min = minimize_model(m_c, lambda m2: _same(evaluate(m2, sp_min, ignore, fast=True)[0], sig),
                           120 if culprits else 400, fine=True)
    return m_min, sp_min, culprits


def classify(m: Dict[str, Any], sp: Dict[str, Any], rounds: int = 3) -> Optional[Tuple[str, str]]:
    """Run the contract; on failure reduce it and return (key, message).

    A document can fail for several independent reasons.  After a failure has been attributed to spelling
    labels these are pinned (or, for a mismatch that shows in canonical spelling, its path is ignored) and the
    contract is evaluated again; the *last* failure found is returned, so that frequent failures do not mask
    rarer ones (the frequent ones are still reported by the documents where they are the only failure)."""
    pins = list(sp.get('pin', []))
    ignore: set = set()
    result = None
    for _round in range(rounds):
        cur = dict(sp, pin=list(pins))
        sig, text, used, detail = evaluate(m, cur, ignore)
        if sig is None:
            break
        ig = tuple(ignore)
        m_min, sp_min, culprits = reduce_failure(m, cur, sig, ig)
        s3, text3, _u3, detail3 = evaluate(m_min, sp_min, ig)       # confirm through the official entry point
        if not _same(s3, sig):
            m_min, text3, detail3 = m, text, detail
        key = f'{sig[0]}:{sig[1]}:{_culprit_name(culprits, m_min, sig)}'
        msg = (f'expected view(PyDBML(surface(m, sp))) == m; observed {detail3}; spelling decisions that matter: '
               f'{culprits or "none (fails in documentation spelling)"}; reduced document:\n{text3[:440]}')
        result = (key, msg[:900])
        if culprits and len(culprits) <= 3:
            pins.extend(culprits)
        elif sig[0] == 'field-mismatch':
            ignore.add(sig[1])
        else:
            break
    return result


# ------------------------------------------------------------------ obligations

class Document(BObl):
    id = 'C01.B.document'
    property = 'C01'
    rule = ('case = (model seed, spelling seed): random_model(seed) is a well-formed abstract database '
            '(<=4 tables x <=4 columns, <=2 enums, <=4 refs of all kinds/forms, groups, notes, project; 1 in 4 with '
            'arbitrary properties), surface(m, sp) its DBML text under seeded spelling choices; non-trivial = every case '
            '(each has >=1 table); distinct by recipe')
    bound = 'quick 1500 documents, thorough 40000 (25% size medium: <=7 tables x <=6 columns)'
    budget = {'quick': 25.0, 'thorough': 300.0}
    chunk = 16

    def cases(self, tier, seed):
        n = 1500 if tier == 'quick' else 40000
        for i in range(n):
            size = 'small'
            if tier != 'quick' and i % 4 == 3:
                size = 'medium'
            yield {'m': seed * 1000003 + i, 's': seed * 7919 + i * 31 + 1, 'size': size, 'props': i % 4 == 0}

    def check(self, recipe):
        m = random_model(random.Random(recipe['m']), recipe.get('size', 'small'), allow_properties=recipe.get('props', False))
        return classify(m, {'seed': recipe['s']})


# ---- spelling variants for the exhaustive element products

LEXICAL = [
    {},                                                         # documentation spelling
    {'kw': 'lower', 'str': 'double', 'quote': 'quoted'},
    {'kw': 'upper', 'str': 'triple', 'quote': 'bare', 'esc': 'min'},
    {'kw': 'mixed', 'str': 'single', 'quote': 'quoted'},
]
SETTING_FEATURES = {
    'column': {'pk', 'unique', 'not_null', 'autoinc', 'default_int', 'default_float', 'default_bool', 'default_null',
               'default_str', 'default_expr', 'note', 'note_ml', 'ref_inline', 'ref_inline2', 'prop', 'prop2'},
    'index': {'name', 'unique', 'type', 'pk', 'note', 'note_ml'},
    'ref_short': {'on_update', 'on_delete'}, 'ref_long': {'on_update', 'on_delete'}, 'ref_inline': set(),
    'table': {'header_color', 'note', 'note_ml'}, 'enum': {'item_note', 'item_note_ml'},
    'table_group': {'color', 'note', 'note_ml'}, 'project': set(), 'sticky_note': set(),
}
_FORM = {'ref_short': 'short', 'ref_long': 'long'}


def element_variants(kind: str, sub: Tuple[str, ...]) -> List[Dict[str, Any]]:
    """The spelling variants that apply to this element with these features (as `force` maps)."""
    fs = set(sub)
    out = [dict(v) for v in LEXICAL]
    n = len(fs & SETTING_FEATURES[kind])
    note_as_setting = {'notepos': 'settings'} if kind in ('table', 'table_group') and fs & {'note', 'note_ml'} else {}
    if n >= 1:
        perms = list(itertools.permutations(range(n)))
        for perm in perms:
            if perm != tuple(range(n)):
                out.append(dict(note_as_setting, ml='one', order=list(perm)))
        out.append(dict(note_as_setting, ml='multi'))
        if n >= 2:
            out.append(dict(note_as_setting, ml='multi', order=list(reversed(range(n)))))
        if note_as_setting:
            out.append(dict(note_as_setting))
    has_note = bool(fs & {'note', 'note_ml', 'item_note', 'item_note_ml', 'ml', 'quotes'}) or kind == 'sticky_note'
    if has_note:
        out.append({'pad': 'wrap', 'str': 'triple', 'esc': 'min', 'indent': '\t'})
        out.append({'pad': 'wrap_deep', 'str': 'triple', 'blank': 2})
        if kind in ('table', 'table_group', 'project'):
            out.append({'noteform': 'block'})
            out.append({'noteform': 'block', 'kw': 'upper', 'bodypos': 0})
    if fs & {'comment', 'comment_ml', 'item_comment'}:
        out.append({'cpos': 'above'})
        out.append({'cpos': 'trailing', 'cstyle': 'block'})
        out.append({'cpos': 'above', 'cstyle': 'block', 'cspace': ''})
    if kind.startswith('ref') or kind == 'table_group' or fs & {'ref_inline', 'ref_inline2'}:
        out.append({'addr': 'qualified'})
        out.append({'addr': 'qualified', 'declpublic': 'qualified', 'quote': 'quoted'})
        if kind == 'table_group' and 'alias_item' in fs:
            out.append({'addr': 'alias'})
    if kind == 'column' and 'pk' in fs:
        out.append({'pkword': 'primary_key'})
        out.append({'pkword': 'primary_key', 'kw': 'upper'})
    if kind == 'column' and not fs & {'not_null'}:
        out.append({'explicitnull': 'yes'})
    if kind == 'column' and fs & {'type_enum'}:
        out.append({'enumaddr': 'qualified'})
    if kind == 'index':
        out.append({'paren': 'yes', 'comma': ','})
    if kind in ('table', 'enum'):
        out.append({'declpublic': 'qualified'})
        out.append({'blank': 2, 'indent': ''})
    if kind == 'table' and fs & {'index', 'note', 'note_ml', 'prop'}:
        out.append({'bodypos': 0})
        out.append({'bodypos': 1, 'blank': 1})
    form = _FORM.get(kind)
    if form:
        for v in out:
            v['refform'] = form
    # drop duplicates
    seen, res = set(), []
    for v in out:
        k = repr(sorted(v.items()))
        if k not in seen:
            seen.add(k)
            res.append(v)
    return res


class Element(BObl):
    id = 'C01.B.element'
    property = 'C01'
    rule = ('for each element kind (column, index, ref short/long/inline, table, enum, table group, project, sticky '
            'note): every consistent subset of its features of size <= 3 (spec/gen.py *_FEATURES; the features in spec/gen.py PAIR_ONLY '
            'only up to pairs), embedded in a minimal document, x the spelling variants that apply '
            '(bounded/c01.py element_variants): 4 rows covering keyword case {doc,lower,UPPER,mIxEd} x string '
            'style {single,double,triple} x identifiers {bare,quoted}; every order of the <=3 settings one-line, '
            'multi-line list in 2 orders; note in settings / Note: / Note {}; padded triple strings; comment '
            'above/trailing, // and /* */; addressing bare/qualified/alias; `primary key`, explicit `null`, '
            'parenthesised single index, blank lines, body positions; everything else in documentation spelling.  '
            'non-trivial = every case')
    bound = 'exhaustive over the product above (same in both tiers)'
    budget = {'quick': 25.0, 'thorough': 120.0}
    chunk = 128

    def exhaustive(self, tier):
        return True

    def cases(self, tier, seed):
        for kind in ELEMENT_KINDS:
            for sub in feature_subsets(kind, 3):
                for force in element_variants(kind, sub):
                    yield {'kind': kind, 'features': list(sub), 'force': force}

    def check(self, recipe):
        m = element_model(recipe['kind'], tuple(recipe['features']))
        sp = {'seed': 0, 'pin': ['*'], 'force': dict(recipe['force'])}
        return classify(m, sp, rounds=1)


class SpellingInvariance(BObl):
    id = 'C01.B.spelling-invariance'
    property = 'C01'
    rule = ('metamorphic: one abstract model written under two independent spelling seeds must give equal views '
            '(does not use the expected model, so it also catches a misunderstanding shared by surface and view); '
            'a spelling that is rejected is reported by C01.B.document, here the next seed is taken (up to 4 tries '
            'per side); non-trivial = two spellings parsed')
    bound = 'quick 600 models x 2 spellings, thorough 12000'
    budget = {'quick': 20.0, 'thorough': 200.0}
    chunk = 16
    _memo: Tuple[Any, Any] = (None, None)

    def cases(self, tier, seed):
        n = 600 if tier == 'quick' else 12000
        for i in range(n):
            yield {'m': seed * 1000003 + 500000 + i, 's1': 2 * i + 1 + seed * 7919, 's2': 2 * i + 2 + seed * 7919,
                   'props': i % 5 == 0}

    def _views(self, recipe):
        key = repr(sorted(recipe.items()))
        if self._memo[0] == key:
            return self._memo[1]
        m = random_model(random.Random(recipe['m']), 'small', allow_properties=recipe.get('props', False))
        out = []
        for s0 in (recipe['s1'], recipe['s2']):
            got = None
            for k in range(4):
                s = s0 + k * 1000003
                text, _used = surface_ex(m, {'seed': s})
                try:
                    got = (view(parse_real(text, m['allow_properties'])), text, s)
                    break
                except Exception:
                    continue
            out.append(got)
        SpellingInvariance._memo = (key, (m, out))
        return m, out

    def nontrivial(self, recipe):
        _m, out = self._views(recipe)
        return all(o is not None for o in out)

    def check(self, recipe):
        m, out = self._views(recipe)
        if out[0] is None or out[1] is None:
            return None
        (v1, t1, s1), (v2, t2, s2) = out
        if v1 == v2:
            return None
        ds = diff(v1, v2)
        between = sorted({_path(d) for d in ds})
        # attribute the difference: reduce the spelling that deviates from the declared model at that path
        culprit = 'unattributed'
        path = between[0]
        for v, s in ((v1, s1), (v2, s2)):
            wrong = {_path(d) for d in diff(v, m)}
            hit = [p for p in between if p in wrong]
            if hit:
                path = hit[0]
                sig = ('field-mismatch', path)
                ig = tuple(wrong - {path})
                sp = {'seed': s}
                if _same(evaluate(m, sp, ig)[0], sig):
                    m_min, _sp_min, culprits = reduce_failure(m, sp, sig, ig)
                    culprit = _culprit_name(culprits, m_min, sig)
                break
        return (f'views-differ:{path}:{culprit}',
                (f'two spellings of one model give different databases: {"; ".join(ds[:3])[:300]}\n--- spelling 1\n'
                 f'{t1[:220]}\n--- spelling 2\n{t2[:220]}')[:900])


# ------------------------------------------------------------------ exotic quoted identifiers

EXOTIC_NAMES = ['a.b', 'x,y', '(z)', '(w', 'v)', ' lead', 'trail ']


def _xt(name='t', cols=('id',), **kw):
    d = {'name': name, 'columns': [{'name': c, 'type': 'int'} for c in cols]}
    d.update(kw)
    return d


def exotic_cases():
    """(site, variant name) -> builder(X) giving (model, force).  One exotic name X sits in exactly one *use*
    position; everything else is a plain word in documentation spelling."""
    def doc(**kw):
        d = {'tables': [], 'enums': [], 'refs': [], 'table_groups': [], 'sticky_notes': [], 'project': None,
             'allow_properties': False}
        d.update(kw)
        return d

    def ref(t1, c1, t2, c2, typ='>', inline=False):
        return {'type': typ, 'inline': inline, 't1': t1, 'c1': c1, 't2': t2, 'c2': c2}
    P = 'public'
    out = {}
    # declarations
    out[('table', 'decl')] = lambda X: (doc(tables=[_xt(X)]), {})
    out[('table', 'decl-qualified')] = lambda X: (doc(tables=[_xt(X)]), {'declpublic': 'qualified'})
    out[('schema', 'decl')] = lambda X: (doc(tables=[_xt('t', schema=X)]), {})
    out[('alias', 'decl')] = lambda X: (doc(tables=[_xt('t', alias=X)]), {})
    out[('column', 'decl')] = lambda X: (doc(tables=[_xt('t', ('id', X))]), {})
    out[('column', 'decl-settings')] = lambda X: (doc(tables=[{'name': 't', 'columns': [
        {'name': X, 'type': 'varchar(10)', 'pk': True, 'note': 'n', 'default': {'kind': 'int', 'value': 1}}]}]), {})
    out[('enum', 'decl')] = lambda X: (doc(enums=[{'name': X, 'items': [{'name': 'a'}]}], tables=[_xt()]), {})
    out[('enum-schema', 'decl')] = lambda X: (doc(enums=[{'schema': X, 'name': 'e', 'items': [{'name': 'a'}]}],
                                                   tables=[_xt()]), {})
    out[('enum-item', 'decl')] = lambda X: (doc(enums=[{'name': 'e', 'items': [{'name': 'a'}, {'name': X, 'note': 'n'}]}],
                                                 tables=[_xt()]), {})
    out[('group-name', 'decl')] = lambda X: (doc(tables=[_xt()], table_groups=[{'name': X, 'items': [[P, 't']]}]), {})
    out[('project', 'decl')] = lambda X: (doc(tables=[_xt()], project={'name': X, 'items': [['author', 'me']]}), {})
    out[('sticky-note', 'decl')] = lambda X: (doc(tables=[_xt()], sticky_notes=[{'name': X, 'text': 'x'}]), {})
    out[('ref-name', 'short')] = lambda X: (doc(tables=[_xt('t', ('id', 'k'))],
                                                refs=[dict(ref([P, 't'], ['k'], [P, 't'], ['id']), name=X)]), {'refform': 'short'})
    out[('ref-name', 'long')] = lambda X: (doc(tables=[_xt('t', ('id', 'k'))],
                                               refs=[dict(ref([P, 't'], ['k'], [P, 't'], ['id']), name=X)]), {'refform': 'long'})
    # enum used as a column type
    for addr in ('bare', 'qualified'):
        out[('enum-typed-column', f'name-{addr}')] = lambda X, addr=addr: (
            doc(enums=[{'name': X, 'items': [{'name': 'a'}]}], tables=[_xt('t', ()) | {'columns': [
                {'name': 'c', 'type': {'enum': [P, X]}}]}]), {'enumaddr': addr})
    out[('enum-typed-column', 'schema')] = lambda X: (
        doc(enums=[{'schema': X, 'name': 'e', 'items': [{'name': 'a'}]}], tables=[{'name': 't', 'columns': [
            {'name': 'c', 'type': {'enum': [X, 'e']}}]}]), {})
    out[('enum-typed-column', 'name-in-schema')] = lambda X: (
        doc(enums=[{'schema': 's1', 'name': X, 'items': [{'name': 'a'}]}], tables=[{'name': 't', 'columns': [
            {'name': 'c', 'type': {'enum': ['s1', X]}}]}]), {})
    # index subjects
    out[('index-subject', 'single')] = lambda X: (doc(tables=[_xt('t', ('id', X), indexes=[{'subjects': [{'col': X}]}])]), {})
    out[('index-subject', 'composite')] = lambda X: (
        doc(tables=[_xt('t', ('id', X), indexes=[{'subjects': [{'col': 'id'}, {'col': X}], 'unique': True}])]), {})
    # column names in ref endpoints
    for form in ('short', 'long'):
        out[('ref-endpoint-column', f'left-{form}')] = lambda X, form=form: (
            doc(tables=[_xt('t', ('id', X)), _xt('u')], refs=[ref([P, 't'], [X], [P, 'u'], ['id'])]), {'refform': form})
        out[('ref-endpoint-column', f'right-{form}')] = lambda X, form=form: (
            doc(tables=[_xt('t', ('id', X)), _xt('u')], refs=[ref([P, 'u'], ['id'], [P, 't'], [X], '<')]), {'refform': form})
        out[('ref-endpoint-column', f'composite-{form}')] = lambda X, form=form: (
            doc(tables=[_xt('t', ('id', X)), _xt('u', ('p', 'q'))], refs=[ref([P, 't'], ['id', X], [P, 'u'], ['p', 'q'], '-')]),
            {'refform': form})
    out[('ref-endpoint-column', 'inline-target')] = lambda X: (
        doc(tables=[_xt('t', ('id', X)), _xt('u')], refs=[ref([P, 'u'], ['id'], [P, 't'], [X], '>', True)]), {})
    out[('ref-endpoint-column', 'inline-declaring')] = lambda X: (
        doc(tables=[_xt('t', ('id', X)), _xt('u')], refs=[ref([P, 't'], [X], [P, 'u'], ['id'], '>', True)]), {})
    # table / schema / alias mentioned in a ref endpoint
    for form in ('short', 'long', 'inline'):
        inl = form == 'inline'
        f = {} if inl else {'refform': form}
        for addr in ('bare', 'qualified'):
            out[('ref-endpoint-table', f'name-{addr}-{form}')] = lambda X, inl=inl, f=f, addr=addr: (
                doc(tables=[_xt('u', ('id', 'k')), _xt(X)], refs=[ref([P, 'u'], ['k'], [P, X], ['id'], '>', inl)]),
                dict(f, addr=addr))
        out[('ref-endpoint-table', f'schema-{form}')] = lambda X, inl=inl, f=f: (
            doc(tables=[_xt('u', ('id', 'k')), _xt('t', schema=X)], refs=[ref([P, 'u'], ['k'], [X, 't'], ['id'], '>', inl)]),
            dict(f, addr='qualified'))
        out[('ref-endpoint-table', f'alias-{form}')] = lambda X, inl=inl, f=f: (
            doc(tables=[_xt('u', ('id', 'k')), _xt('t', alias=X)], refs=[ref([P, 'u'], ['k'], [P, 't'], ['id'], '>', inl)]),
            dict(f, addr='alias'))
    # group items
    for addr in ('bare', 'qualified'):
        out[('group-item', f'name-{addr}')] = lambda X, addr=addr: (
            doc(tables=[_xt(X)], table_groups=[{'name': 'g', 'items': [[P, X]]}]), {'addr': addr})
    out[('group-item', 'schema')] = lambda X: (
        doc(tables=[_xt('t', schema=X)], table_groups=[{'name': 'g', 'items': [[X, 't']]}]), {'addr': 'qualified'})
    out[('group-item', 'alias')] = lambda X: (
        doc(tables=[_xt('t', alias=X)], table_groups=[{'name': 'g', 'items': [[P, 't']]}]), {'addr': 'alias'})
    return out


_EXOTIC_CASES = exotic_cases()


class ExoticNames(BObl):
    id = 'C01.B.exotic-names'
    property = 'C01'
    rule = ('quoted identifiers that contain `.`, `,`, `(`, `)` or a leading/trailing space (7 names), each placed in '
            'exactly one use position of a minimal document: declaration of table / schema / alias / column / enum / '
            'enum schema / enum item / group / project / sticky note / ref name; enum (name or schema) used as a column '
            'type bare and qualified; index subject single and composite; column in a ref endpoint left/right/composite '
            'x short/block, inline target and inline declaring column; table, schema or alias mentioned in a ref endpoint '
            'x short/block/inline; table, schema or alias as a group item.  Contract: accepted, view == model, and the '
            'identity clauses of C05 (endpoints, enum type, group items).  The key is `exotic-name:<use position>` only '
            '(never the character, the outcome or the spelling), so one defect of one position has exactly one key.  '
            'Exhaustive and independent of the seed; all other obligations use exotic=False.')
    bound = f'{len(_EXOTIC_CASES)} use positions/variants x {len(EXOTIC_NAMES)} names, exhaustive in both tiers'
    budget = {'quick': 10.0, 'thorough': 10.0}
    chunk = 32

    def exhaustive(self, tier):
        return True

    def cases(self, tier, seed):
        for (site, variant) in _EXOTIC_CASES:
            for k in range(len(EXOTIC_NAMES)):
                yield {'site': site, 'variant': variant, 'name': k}

    def check(self, recipe):
        site = recipe['site']
        X = EXOTIC_NAMES[recipe['name']]
        m, force = _EXOTIC_CASES[(site, recipe['variant'])](X)
        m = normalize(m)
        sp = {'seed': 0, 'pin': ['*'], 'force': dict(force)}
        text = surface_ex(m, sp)[0]
        key = f'exotic-name:{site}'
        try:
            db = parse_real(text, False)
            v = view(db)
        except Exception as e:
            return key, (f'expected the document to be accepted with the name {X!r} as {site} ({recipe["variant"]}); observed '
                         f'{type(e).__name__}: {str(e)[:150]}; document:\n{text[:450]}')[:900]
        if v != m:
            ds = diff(v, m)
            return key, (f'expected view == declared model with the name {X!r} as {site} ({recipe["variant"]}); observed '
                         f'{"; ".join(ds[:3])[:300]} (observed != declared); document:\n{text[:450]}')[:900]
        from bounded.c05 import link_failures      # late import: bounded.c05 imports this module
        try:
            fails = link_failures(db, m)
        except Exception as e:
            fails = [('graph-unusable', f'{type(e).__name__}: {str(e)[:150]}')]
        if fails:
            return key, (f'expected a consistently linked graph with the name {X!r} as {site} ({recipe["variant"]}); observed '
                         f'{fails[0][0]}: {fails[0][1][:250]}; document:\n{text[:450]}')[:900]
        return None


OBLIGATIONS = [Document(), Element(), SpellingInvariance(), ExoticNames()]
