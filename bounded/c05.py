"""Bounded run-time-contract obligations for C05 (a parsed database is one consistently linked graph).

Contract on `PyDBML(source)`, `requires source == surface(m, sp)` with the addressing of every table
mention (schema.name / bare / alias), identifier quoting, Ref form and element order varied:
`ensures` every clause of C05's statement, evaluated with `is` on the returned object graph.  The expected
owner of every endpoint / group item / enum type comes from the abstract model `m`, never from the
library's own lookups.
"""
from __future__ import annotations

import random
from typing import Any, Dict, List, Tuple

from lib.bounded import BObl
from spec.gen import random_model
from spec.model import normalize
from spec.surface import surface, SurfaceError
from bounded.c01 import parse_real, minimize_model

# spelling decisions left free for C05 (everything else in documentation spelling, so that the known
# spelling-dependent rejections of C01 do not hide link checks)
FREE = ['addr@ref_ep', 'addr@group_item', 'addr@inline_target', 'enumaddr@type', 'declpublic@table_name',
        'declpublic@enum_name', 'refform@ref', 'refgap@ref', 'toppos@enum', 'toppos@group', 'toppos@sticky',
        'toppos@project', 'quote@ref_ep', 'quote@ref_col', 'quote@group_item', 'quote@inline_target', 'quote@type',
        'quote@table_name', 'quote@schema', 'quote@alias', 'quote@col_name', 'quote@idx_subject', 'quote@enum_name',
        'notepos@table', 'notepos@group', 'noteform@table', 'noteform@group', 'noteform@project', 'bodypos@note',
        'bodypos@indexes', 'bodypos@group_note', 'order@col', 'ml@col', 'paren@idx']


def _is_in(x, lst) -> int:
    return sum(1 for y in lst if y is x)


def link_failures(db, m: Dict[str, Any]) -> List[Tuple[str, str]]:
    """Every violated clause of C05 as (key, message)."""
    from pydbml.classes import Column
    from pydbml.renderer.sql.default.table import get_references_for_sql
    out: List[Tuple[str, str]] = []

    def bad(key, msg):
        out.append((key, msg))

    # expected objects by position / declared name (no library lookup involved)
    if len(db.tables) != len(m['tables']) or len(db.refs) != len(m['refs']) or len(db.enums) != len(m['enums']) \
            or len(db.table_groups) != len(m['table_groups']):
        bad('element-count', f'tables/refs/enums/groups {len(db.tables)}/{len(db.refs)}/{len(db.enums)}/'
            f'{len(db.table_groups)} != declared {len(m["tables"])}/{len(m["refs"])}/{len(m["enums"])}/'
            f'{len(m["table_groups"])}')
        return out
    tab = {}
    for t, mt in zip(db.tables, m['tables']):
        if (t.schema, t.name) != (mt['schema'], mt['name']):
            bad('element-count', f'table {t.schema}.{t.name} where {mt["schema"]}.{mt["name"]} was declared')
            return out
        tab[(mt['schema'], mt['name'])] = t
    enums = {(e.schema, e.name): e for e in db.enums}

    # --- reference endpoints
    for r, mr in zip(db.refs, m['refs']):
        for side, cols, tkey, names in (('col1', r.col1, mr['t1'], mr['c1']), ('col2', r.col2, mr['t2'], mr['c2'])):
            t = tab[tuple(tkey)]
            if len(cols) != len(names):
                bad('endpoint-arity', f'ref {mr["t1"]}.{mr["c1"]} {mr["type"]} {mr["t2"]}.{mr["c2"]}: {side} has '
                    f'{len(cols)} columns')
                continue
            for c, name in zip(cols, names):
                want = [x for x in t.columns if x.name == name]
                if not isinstance(c, Column):
                    bad('endpoint-not-column', f'{side} holds {type(c).__name__}')
                elif want and c is want[0]:
                    continue
                elif c.table is not t:
                    owner = c.table
                    bad('endpoint-wrong-table', f'ref {side} declared as {tkey[0]}.{tkey[1]}.{name} resolved to a column of '
                        f'{getattr(owner, "schema", None)}.{getattr(owner, "name", None)}')
                else:
                    bad('endpoint-not-identical', f'ref {side} {tkey}.{name} is not the Column object held by the table '
                        f'(equal copy: {bool(want) and c == want[0]})')
        if mr['inline']:
            t = tab[tuple(mr['t1'])]
            decl = [x for x in t.columns if x.name == mr['c1'][0]]
            if not (len(r.col1) == 1 and decl and r.col1[0] is decl[0]):
                bad('inline-not-declaring-column', f'inline ref declared in {mr["t1"]}.{mr["c1"][0]} has col1={r.col1!r}')
    # --- back pointers
    for t in db.tables:
        for c in t.columns:
            if c.table is not t:
                bad('column-table', f'column {c.name}.table is {c.table!r}, owner {t!r}')
            if c.note is None or c.note.parent is not c:
                bad('note-parent:column', f'column {t.name}.{c.name}: note.parent is {getattr(c.note, "parent", None)!r}')
        for i in t.indexes:
            if i.table is not t:
                bad('index-table', f'index.table is {i.table!r}, owner {t!r}')
            if i.note is None or i.note.parent is not i:
                bad('note-parent:index', f'index of {t.name}: note.parent is {getattr(i.note, "parent", None)!r}')
            for s in i.subjects:
                if isinstance(s, Column) and _is_in(s, t.columns) != 1:
                    bad('index-subject-foreign', f'index subject {s!r} is not one of the Column objects of {t!r}')
        if t.note is None or t.note.parent is not t:
            bad('note-parent:table', f'table {t.name}: note.parent is {getattr(t.note, "parent", None)!r}')
    for e in db.enums:
        for it in e.items:
            if it.note is None or it.note.parent is not it:
                bad('note-parent:enum_item', f'enum item {e.name}.{it.name}: note.parent is {getattr(it.note, "parent", None)!r}')
    if db.project is not None:
        if db.project.note is None or db.project.note.parent is not db.project:
            bad('note-parent:project', f'project note.parent is {getattr(db.project.note, "parent", None)!r}')
    for g, mg in zip(db.table_groups, m['table_groups']):
        if mg['note'] is not None:
            if g.note is None or getattr(g.note, 'parent', None) is not g:
                bad('note-parent:table_group', f'table group {g.name}: note.parent is {getattr(g.note, "parent", None)!r}')
        # --- group items
        if len(g.items) != len(mg['items']):
            bad('group-item-count', f'group {g.name} holds {len(g.items)} items, declared {len(mg["items"])}')
        else:
            for x, k in zip(g.items, mg['items']):
                if x is not tab[tuple(k)]:
                    bad('group-item-not-table', f'group {g.name}: item declared as {k} is {x!r}')
    # --- enum typed columns
    for t, mt in zip(db.tables, m['tables']):
        for c, mc in zip(t.columns, mt['columns']):
            if isinstance(mc['type'], dict):
                want = enums.get(tuple(mc['type']['enum']))
                if c.type is not want:
                    bad('enum-type-not-linked', f'column {t.name}.{c.name} declared with enum {mc["type"]["enum"]} holds '
                        f'{c.type!r}')
    # --- database back pointers
    for kind, objs in (('table', db.tables), ('ref', db.refs), ('enum', db.enums), ('table_group', db.table_groups),
                       ('sticky_note', db.sticky_notes), ('project', [db.project] if db.project else [])):
        for o in objs:
            if getattr(o, 'database', None) is not db:
                bad(f'database-backpointer:{kind}', f'{o!r}.database is {getattr(o, "database", None)!r}')
    # --- lookups
    for i, t in enumerate(db.tables):
        try:
            if db[i] is not t:
                bad('lookup-index', f'db[{i}] is {db[i]!r}, db.tables[{i}] is {t!r}')
            if db[f'{t.schema}.{t.name}'] is not t:
                bad('lookup-fullname', f'db[{t.schema}.{t.name}] is {db[t.schema + "." + t.name]!r}')
            if t.alias and db[t.alias] is not t:
                bad('lookup-alias', f'db[{t.alias!r}] is {db[t.alias]!r}, the alias was declared on {t!r}')
        except Exception as e:
            bad('lookup-raises', f'{type(e).__name__}: {e}')
    # --- reference ownership
    for t in db.tables:
        try:
            got = t.get_refs()
        except Exception as e:
            bad('get-refs-raises', f'{type(e).__name__}: {e}')
            continue
        want = [r for r in db.refs if r.col1 and r.col1[0].table is t]
        if len(got) != len(want) or any(a is not b for a, b in zip(got, want)):
            bad('get-refs', f'{t!r}.get_refs() = {got!r}, refs whose left side is the table: {want!r}')
    for r in db.refs:
        if r.type == '<>':
            continue
        try:
            holders = [t for t in db.tables if _is_in(r, get_references_for_sql(t)) > 0]
            multi = [t for t in db.tables if _is_in(r, get_references_for_sql(t)) > 1]
        except Exception as e:
            bad('sql-holder-raises', f'{type(e).__name__}: {e}')
            continue
        if len(holders) != 1 or multi:
            bad('sql-holder', f'{r!r} is the SQL key of {len(holders)} tables: {holders!r}')
    return out


def run_links(m: Dict[str, Any], sp: Dict[str, Any]) -> Tuple[List[Tuple[str, str]], str]:
    text = surface(m, sp)
    try:
        db = parse_real(text, m['allow_properties'])
    except Exception as e:
        # no database is returned: only a failure to *resolve* a valid mention is C05's business (acceptance of
        # well-formed documents is C01's)
        name = type(e).__name__
        if name in ('TableNotFoundError', 'ColumnNotFoundError'):
            return [(f'unresolved:{name}', f'{name}: {str(e)[:200]}')], text
        return [('__rejected__', f'{name}: {str(e)[:200]}')], text
    try:
        return link_failures(db, m), text
    except Exception as e:       # malformed graph makes the clause evaluation itself fail
        return [(f'graph-unusable:{type(e).__name__}', f'{type(e).__name__}: {str(e)[:200]}')], text


def _reduced(m, sp, key: str) -> Tuple[Dict[str, Any], str]:
    def test(m2):
        fs, _t = run_links(m2, sp)
        return any(k == key for k, _m in fs)
    m_min = minimize_model(m, test, 150, fine=True)
    return m_min, surface(m_min, sp)


# ------------------------------------------------------------------ alias / name shadowing family

def shadow_model(rec: Dict[str, Any]) -> Dict[str, Any]:
    """`Table a as b {..}  Table b {..}` (b optionally in another schema) plus one mention of table b by
    schema.name at `site`."""
    sb = rec['schema']
    ta = {'name': 'a', 'alias': 'b', 'columns': [{'name': 'id', 'type': 'int'}, {'name': 'ax', 'type': 'int'}]}
    tb = {'name': 'b', 'schema': sb, 'columns': [{'name': 'id', 'type': 'int'}, {'name': 'bx', 'type': 'int'}]}
    col = rec['col']
    site = rec['site']
    refs, groups = [], []
    if site in ('left', 'right'):
        e_b = ([sb, 'b'], [col])
        e_a = (['public', 'a'], ['id'])
        (t1, c1), (t2, c2) = (e_b, e_a) if site == 'left' else (e_a, e_b)
        refs.append({'type': rec['type'], 't1': t1, 'c1': c1, 't2': t2, 'c2': c2})
    elif site == 'inline':
        refs.append({'type': rec['type'], 'inline': True, 't1': ['public', 'a'], 'c1': ['ax'], 't2': [sb, 'b'], 'c2': [col]})
    elif site == 'self':       # b references itself, both sides written schema.name
        refs.append({'type': rec['type'], 't1': [sb, 'b'], 'c1': ['bx'], 't2': [sb, 'b'], 'c2': ['id']})
    elif site == 'group':
        groups.append({'name': 'g', 'items': [[sb, 'b']]})
    tables = [ta, tb] if rec['order'] == 'alias-first' else [tb, ta]
    if site == 'inline' and rec['order'] != 'alias-first':
        pass
    return normalize({'tables': tables, 'refs': refs, 'table_groups': groups, 'enums': [], 'sticky_notes': [],
                      'project': None, 'allow_properties': False})


def shadow_cases():
    for sb in ('public', 's1'):
        for order in ('alias-first', 'alias-second'):
            for site in ('left', 'right', 'inline', 'self', 'group'):
                cols = ['id'] if site in ('group', 'self') else ['id', 'bx']
                types = ['>'] if site == 'group' else ['>', '<', '-'] if site == 'inline' else ['>', '<', '-', '<>']
                for col in cols:
                    for ty in types:
                        for form in (['short', 'long'] if site in ('left', 'right', 'self') else ['short']):
                            yield {'family': 'shadow', 'schema': sb, 'order': order, 'site': site, 'col': col,
                                   'type': ty, 'form': form}


class Links(BObl):
    id = 'C05.B.links'
    property = 'C05'
    rule = ('family random: (model seed, spelling seed); the document is surface(random_model) with, per mention of a '
            'table (ref endpoints, inline targets, group items), addressing drawn from {schema.name, bare (public), '
            'alias}, quoting, Ref form, element order and note position free and everything else in documentation '
            'spelling; non-trivial = the model has a ref, a group, an index or an enum-typed column.  family shadow '
            '(exhaustive): `Table a as b`, `Table b` in public or s1, one schema-qualified mention of b as ref '
            'endpoint left/right/both/inline target/group item x ref kind x short/block form x declaration order x '
            'column present in both tables or only in b.  Every clause of the statement is evaluated with `is`.')
    bound = 'quick 900 random documents (<=4 tables) + 188 shadow documents; thorough 20000 + 188'
    budget = {'quick': 20.0, 'thorough': 200.0}
    chunk = 16

    def cases(self, tier, seed):
        for rec in shadow_cases():
            yield rec
        n = 900 if tier == 'quick' else 20000
        for i in range(n):
            yield {'family': 'random', 'm': seed * 1000003 + 700000 + i, 's': seed * 7919 + 3 * i + 2,
                   'size': 'small' if i % 3 else 'tiny', 'props': i % 6 == 0}

    def _build(self, recipe):
        if recipe['family'] == 'shadow':
            m = shadow_model(recipe)
            sp = {'seed': 0, 'pin': ['*'], 'force': {'addr': 'qualified', 'refform': recipe['form']}}
        else:
            m = random_model(random.Random(recipe['m']), recipe.get('size', 'small'),
                             allow_properties=recipe.get('props', False))
            sp = {'seed': recipe['s'], 'wild': 1.0, 'free': FREE}
        return m, sp

    def nontrivial(self, recipe):
        if recipe['family'] == 'shadow':
            return True
        m, _sp = self._build(recipe)
        return bool(m['refs'] or m['table_groups'] or any(t['indexes'] for t in m['tables'])
                    or any(isinstance(c['type'], dict) for t in m['tables'] for c in t['columns']))

    def check(self, recipe):
        m, sp = self._build(recipe)
        fails, text = run_links(m, sp)
        fails = [f for f in fails if f[0] != '__rejected__']
        if not fails:
            return None
        if recipe['family'] == 'shadow':
            # any wrong resolution of the schema-qualified mention is the shadowing defect
            k0, msg0 = fails[0]
            resolution = ('endpoint-wrong-table', 'group-item-not-table', 'unresolved:ColumnNotFoundError',
                          'unresolved:TableNotFoundError', 'inline-not-declaring-column', 'get-refs', 'sql-holder')
            if k0 in resolution:
                key = 'alias-shadows-name'
            else:
                key = k0
            return key, (f'expected the mention `{recipe["schema"]}.b` to resolve to table {recipe["schema"]}.b; observed '
                         f'{k0}: {msg0}; document:\n{text}')[:900]
        # random family: one document can violate several clauses; rotate over them by the spelling seed so that a
        # frequent clause does not mask the others across the run
        keys = sorted({k for k, _ in fails})
        key = keys[recipe['s'] % len(keys)]
        msg = [mm for k, mm in fails if k == key][0]
        try:
            m_min, text_min = _reduced(m, sp, key)
            fs2, _t = run_links(m_min, sp)
            msg2 = [mm for k, mm in fs2 if k == key]
            if msg2:
                msg, text = msg2[0], text_min
        except SurfaceError:
            pass
        return key, (f'clause `{key}` of C05 violated: {msg}; all violated clauses in the original document: '
                     f'{sorted({k for k, _ in fails})}; reduced document:\n{text[:450]}')[:900]


OBLIGATIONS = [Links()]
