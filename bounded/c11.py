"""C11 -- parsing is deterministic, history-independent and re-entrant.

Bounded run-time contracts on the real parser: re-parse after arbitrary histories
(C11.B.history), no shared mutable objects between results (C11.B.no-sharing), shared
grammar singletons do not accumulate parse actions (C11.B.actions-stable), concurrent parses
equal sequential ones (C11.B.threads; schedules are NOT enumerated), everything created for a
parse can be reclaimed (C11.B.reclaim).
"""
from __future__ import annotations

import gc
import random
import sys
import threading
import types
import weakref
from typing import Any, Dict, List, Optional, Tuple

from lib.bounded import BObl
from bounded._api_models import (get_doc, valid_refs, bad_refs, short, exc_name, DOCS_PROPS, BAD_KINDS)


def needs_props(ref) -> bool:
    return ref[0] == 'p'


def parse_outcome(ref, props: Optional[bool] = None):
    """('ok', view, db) | ('exc', class name, None).  BaseException subclasses used by the library
    (SyntaxError is an Exception) are all Exceptions."""
    from pydbml import PyDBML
    from spec.model import view
    if props is None:
        props = needs_props(ref)
    try:
        db = PyDBML(get_doc(ref), allow_properties=props)
    except Exception as e:
        return 'exc', exc_name(e), None
    return 'ok', view(db), db


def all_refs() -> List[Any]:
    return valid_refs() + [['p', i] for i in range(len(DOCS_PROPS))]


# --------------------------------------------------------------------------------------
# C11.B.history
# --------------------------------------------------------------------------------------

MUTATIONS = ['project.items', 'project.note', 'table.properties', 'column.properties', 'table.note', 'column.note',
             'add_table', 'add_column', 'delete_table', 'enum.add_item', 'rename', 'group.items', 'index.subjects',
             'ref.cols', 'sticky.text', 'column.default']


def mutate(db, how: str) -> bool:
    from pydbml.classes import Table, Column, Note
    if how == 'project.items':
        if db.project is None:
            return False
        db.project.items['injected'] = 'x'
        for k in list(db.project.items):
            db.project.items[k] = 'changed'
    elif how == 'project.note':
        if db.project is None:
            return False
        db.project.note.text = 'mutated project note'
    elif how == 'table.properties':
        for t in db.tables:
            t.properties['injected'] = 'x'
    elif how == 'column.properties':
        for t in db.tables:
            for c in t.columns:
                c.properties['injected'] = 'x'
    elif how == 'table.note':
        for t in db.tables:
            t.note.text = 'mutated'
    elif how == 'column.note':
        for t in db.tables:
            for c in t.columns:
                c.note.text = 'mutated'
    elif how == 'add_table':
        db.add(Table('injected_table', columns=[Column('c', 'int')]))
    elif how == 'add_column':
        for t in db.tables:
            t.add_column(Column('injected_col', 'int'))
    elif how == 'delete_table':
        if not db.tables:
            return False
        db.delete(db.tables[-1])
    elif how == 'enum.add_item':
        if not db.enums:
            return False
        for e in db.enums:
            e.add_item('injected_item')
            e.items[0].name = 'renamed_item'
    elif how == 'rename':
        for i, t in enumerate(db.tables):
            t.name = f'renamed{i}'
            for j, c in enumerate(t.columns):
                c.name = f'rc{j}'
                c.type = 'mutated_type'
    elif how == 'group.items':
        if not db.table_groups:
            return False
        for g in db.table_groups:
            g.items.clear()
    elif how == 'index.subjects':
        done = False
        for t in db.tables:
            for ix in t.indexes:
                ix.subjects.append('injected')
                done = True
        return done
    elif how == 'ref.cols':
        if not db.refs:
            return False
        for r in db.refs:
            r.col1.reverse()
            r.col2.clear()
            r.type = '-'
    elif how == 'sticky.text':
        if not db.sticky_notes:
            return False
        for n in db.sticky_notes:
            n.text = 'mutated'
    elif how == 'column.default':
        for t in db.tables:
            for c in t.columns:
                d = c.default
                if hasattr(d, 'text'):
                    d.text = 'mutated()'
                else:
                    c.default = 'mutated'
    else:
        raise ValueError(how)
    return True


class History(BObl):
    id = 'C11.B.history'
    property = 'C11'
    chunk = 8
    rule = ('a target document (pool of ~40 valid documents, 13 invalid ones) is parsed twice (results A and B kept), '
            'then a history of steps runs: parse another valid document, parse an invalid document failing in one of '
            'the four phases (pyparsing syntax error, SyntaxError from a parse action, validation error while adding, '
            'resolution error in a reference/group), or mutate result A (16 kinds: project items, properties, notes, '
            'added/removed tables and columns, enum items, renames, group items, index subjects, reference columns, '
            'defaults); after every step the target is parsed again: its view / exception class must equal the first '
            'one and view(B) must be unchanged; non-trivial = history non-empty')
    bound = ('quick: 1-step histories: every target (54) x 6 parse-step classes + 14 structurally rich targets x 16 '
             'mutations, + 250 seeded histories of length <=6; thorough: every target x every step class + 8000 seeded histories of length <=10')
    budget = {'quick': 20.0, 'thorough': 120.0}

    def step_classes(self):
        steps = [['parse', ['d', 5]], ['parse', ['p', 0]]]
        steps += [['parse', ['bad', k, 0]] for k in BAD_KINDS]
        steps += [['mutate', m] for m in MUTATIONS]
        return steps

    def cases(self, tier, seed):
        targets = all_refs() + bad_refs()
        singles = self.step_classes()
        rich = [['d', 3], ['d', 5], ['d', 7], ['d', 9], ['d', 11], ['d', 12], ['d', 18], ['d', 19], ['d', 28],
                ['u', 1], ['p', 0], ['p', 1], ['r', 0], ['r', 1]]
        for t in targets:
            for s in singles:
                if s[0] == 'mutate' and (t[0] == 'bad' or (tier == 'quick' and t not in rich)):
                    continue
                yield {'target': t, 'history': [s]}
        rnd = random.Random(f'c11-history-{seed}')
        pool_valid = all_refs()
        pool_bad = bad_refs()
        n, maxlen = (250, 6) if tier == 'quick' else (8000, 10)
        for _ in range(n):
            t = rnd.choice(targets if rnd.random() < 0.85 else pool_bad)
            h = []
            for _i in range(rnd.randint(2, maxlen)):
                x = rnd.random()
                if x < 0.3:
                    h.append(['parse', rnd.choice(pool_valid)])
                elif x < 0.65:
                    h.append(['parse', rnd.choice(pool_bad)])
                else:
                    h.append(['mutate', rnd.choice(MUTATIONS)])
            yield {'target': t, 'history': h}

    def check(self, recipe):
        target, history = recipe['target'], recipe['history']
        k0, v0, a = parse_outcome(target)
        kb, vb, b = parse_outcome(target)
        if (k0, v0) != (kb, vb):
            return 'immediate-reparse-differs', short(f'two consecutive parses of {target!r} differ: {k0} vs {kb}', 600)
        keep = []
        for i, step in enumerate(history):
            if step[0] == 'parse':
                cls = 'parse-valid' if step[1][0] != 'bad' else f'parse-bad:{step[1][1]}'
                k, v, d = parse_outcome(step[1])
                keep.append(d)
            else:
                cls = f'mutate:{step[1]}'
                if a is None:
                    continue
                try:
                    mutate(a, step[1])
                except Exception as e:
                    # the mutation itself went through public methods; a refusal there is not this property's business
                    pass
            k1, v1, c = parse_outcome(target)
            if (k1, v1) != (k0, v0):
                from spec.model import diff
                d = '; '.join(diff(v0, v1)[:3]) if k1 == k0 == 'ok' else f'{k0}:{v0 if k0 == "exc" else "view"} vs {k1}:{v1 if k1 == "exc" else "view"}'
                return f'reparse-differs-after:{cls}', short(f'target {target!r} parsed again after {history[:i + 1]!r}: {d}', 600)
            if b is not None:
                from spec.model import view, diff
                vb1 = view(b)
                if vb1 != v0:
                    return f'sharing:{cls}', short(f'result B of {target!r} changed after {history[:i + 1]!r} applied to '
                                                   f'result A / other parses: ' + '; '.join(diff(v0, vb1)[:3]), 600)
        return None

    def nontrivial(self, recipe):
        return bool(recipe['history'])


# --------------------------------------------------------------------------------------
# C11.B.no-sharing
# --------------------------------------------------------------------------------------

_ATOMS = (str, bytes, int, float, bool, complex, type(None), range, frozenset)
_STOP = (type, types.FunctionType, types.BuiltinFunctionType, types.MethodType, types.ModuleType,
         types.MethodDescriptorType, types.WrapperDescriptorType, types.GetSetDescriptorType,
         types.MemberDescriptorType, property, staticmethod, classmethod)


def walk(root) -> Dict[int, Tuple[Any, str]]:
    """id -> (object, path) of every *mutable* object reachable from root through attributes
    and container items.  Immutable atoms, classes, functions and modules are not entered."""
    seen: Dict[int, Tuple[Any, str]] = {}
    stack = [(root, 'db')]
    visited = set()
    while stack:
        o, path = stack.pop()
        if isinstance(o, _ATOMS) or isinstance(o, _STOP):
            continue
        if id(o) in visited:
            continue
        visited.add(id(o))
        if isinstance(o, tuple):
            for i, x in enumerate(o):
                stack.append((x, f'{path}[{i}]'))
            continue
        seen[id(o)] = (o, path)
        if isinstance(o, dict):
            for k, v in o.items():
                stack.append((k, f'{path}.key'))
                stack.append((v, f'{path}[{k!r}]'))
        elif isinstance(o, (list, set)):
            for i, x in enumerate(o):
                stack.append((x, f'{path}[{i}]'))
        else:
            d = getattr(o, '__dict__', None)
            if isinstance(d, dict):
                for k, v in d.items():
                    stack.append((v, f'{path}.{k}'))
            slots = getattr(type(o), '__slots__', ())
            for s in ([slots] if isinstance(slots, str) else slots):
                try:
                    stack.append((getattr(o, s), f'{path}.{s}'))
                except AttributeError:
                    pass
    return seen


class NoSharing(BObl):
    id = 'C11.B.no-sharing'
    property = 'C11'
    chunk = 4
    rule = ('two parse calls (same document twice, or two different documents, with and without allow_properties) '
            'whose results are both kept alive; the object graphs of both Databases are walked through instance '
            'attributes and container items (classes, functions, modules and immutable atoms are not entered); the '
            'two sets of mutable objects, compared by identity, must be disjoint')
    bound = 'quick: every pool document with itself (~45) + 150 seeded pairs; thorough: 3000 seeded pairs'
    budget = {'quick': 15.0, 'thorough': 120.0}

    def cases(self, tier, seed):
        refs = all_refs()
        for r in refs:
            yield {'a': r, 'b': r}
        rnd = random.Random(f'c11-share-{seed}')
        for _ in range(150 if tier == 'quick' else 3000):
            yield {'a': rnd.choice(refs), 'b': rnd.choice(refs)}

    def check(self, recipe):
        ka, va, a = parse_outcome(recipe['a'])
        kb, vb, b = parse_outcome(recipe['b'])
        if a is None or b is None:
            return 'pool-document-invalid', f'{recipe!r}: {ka} {va if ka == "exc" else ""} / {kb} {vb if kb == "exc" else ""}'
        wa, wb = walk(a), walk(b)
        common = set(wa) & set(wb)
        if common:
            items = sorted((wa[i][1], wb[i][1], type(wa[i][0]).__name__) for i in common)
            p1, p2, tn = items[0]
            import re
            site = re.sub(r'\[[^\]]*\]', '[]', p1)
            return f'shared:{tn}@{site}', short(f'{len(common)} mutable objects are reachable from both results of {recipe!r}; '
                                                f'first: a {tn} at {p1} (result 1) and {p2} (result 2)', 600)
        return None


# --------------------------------------------------------------------------------------
# C11.B.actions-stable
# --------------------------------------------------------------------------------------

def grammar_census() -> Dict[str, int]:
    """'<module>.<name>/<path>' -> number of parse actions, for every pyparsing element reachable
    from a module-level name of pydbml.definitions.* (the top-level rules are among them)."""
    import importlib
    import pkgutil
    import pyparsing as pp
    import pydbml.definitions as defs
    out: Dict[str, int] = {}
    seen = set()
    for mi in sorted(pkgutil.iter_modules(defs.__path__), key=lambda m: m.name):
        mod = importlib.import_module(f'pydbml.definitions.{mi.name}')
        for name in sorted(vars(mod)):
            el = getattr(mod, name)
            if not isinstance(el, pp.ParserElement):
                continue
            stack = [(el, f'{mi.name}.{name}')]
            while stack:
                e, path = stack.pop()
                if id(e) in seen:
                    continue
                seen.add(id(e))
                out[f'{path}#{id(e)}'] = len(e.parseAction)
                subs = []
                if hasattr(e, 'exprs'):
                    subs.extend(e.exprs)
                if getattr(e, 'expr', None) is not None and isinstance(e.expr, pp.ParserElement):
                    subs.append(e.expr)
                for i, sub in enumerate(subs):
                    stack.append((sub, f'{path}/{i}'))
    return out


TOP_RULES = [('table', 'table'), ('table', 'table_with_properties'), ('reference', 'ref'), ('enum', 'enum'),
             ('table_group', 'table_group'), ('project', 'project'), ('sticky_note', 'sticky_note')]


class ActionsStable(BObl):
    id = 'C11.B.actions-stable'
    property = 'C11'
    chunk = 1
    rule = ('census of len(parseAction) of every pyparsing element reachable from a module-level name in '
            'pydbml.definitions.* (including the top-level rules table, table_with_properties, ref, enum, table_group, '
            'project, sticky_note) taken before and after 50 parses of a seeded mix of valid and invalid documents, with '
            'and without allow_properties; the census (element identities and action counts) must be identical')
    bound = 'quick: 16 seeded mixes of 50 parses; thorough: 64'
    budget = {'quick': 15.0, 'thorough': 120.0}

    def cases(self, tier, seed):
        for i in range(16 if tier == 'quick' else 64):
            yield {'mix': i, 'seed': seed, 'n': 50}

    def check(self, recipe):
        import importlib
        for mod, name in TOP_RULES:
            m = importlib.import_module(f'pydbml.definitions.{mod}')
            if not hasattr(m, name):
                return 'top-rule-missing', f'pydbml.definitions.{mod}.{name} not found'
        # warm-up: pyparsing streamlines (restructures) the shared grammar the first time it is used
        small = [r for r in all_refs() if r[0] != 'r'] + bad_refs()
        for r in small[::3]:
            parse_outcome(r, props=False)
            parse_outcome(r, props=True)
        before = grammar_census()
        rnd = random.Random(f'c11-actions-{recipe["seed"]}-{recipe["mix"]}')
        pool = small + bad_refs()
        keep = []
        for _ in range(recipe['n']):
            r = rnd.choice(pool)
            keep.append(parse_outcome(r, props=(needs_props(r) or rnd.random() < 0.3))[2])
        after = grammar_census()
        if before != after:
            grew = sorted(k for k in after if k in before and after[k] != before[k])
            new = sorted(k for k in after if k not in before)
            gone = sorted(k for k in before if k not in after)
            k = (grew or new or gone)[0]
            mod = k.split('.')[0]
            what = 'grew' if grew else 'replaced'
            return f'actions-{what}:{mod}', short(f'after {recipe["n"]} parses: {len(grew)} elements changed their number of '
                                                  f'parse actions, {len(new)} new / {len(gone)} vanished shared elements; first: {k} '
                                                  f'{before.get(k)} -> {after.get(k)}', 600)
        return None


# --------------------------------------------------------------------------------------
# C11.B.threads
# --------------------------------------------------------------------------------------

class Threads(BObl):
    id = 'C11.B.threads'
    property = 'C11'
    chunk = 1
    rule = ('T threads each parse their own seeded list of documents (valid, invalid in each phase, with properties) '
            'concurrently with sys.setswitchinterval(1e-6); every result (view or exception class) must equal the one '
            'obtained sequentially beforehand in the same process')
    bound = ('quick: 16 runs x 8 threads x 40 documents; thorough: 96 runs.  Thread schedules are NOT enumerated or '
             'controlled: this samples whatever interleavings the interpreter produces')
    budget = {'quick': 22.0, 'thorough': 120.0}

    def cases(self, tier, seed):
        for i in range(16 if tier == 'quick' else 96):
            yield {'run': i, 'seed': seed, 'threads': 8, 'per': 40}

    def check(self, recipe):
        rnd = random.Random(f'c11-threads-{recipe["seed"]}-{recipe["run"]}')
        # small documents only (the repository's large test files are left to the other obligations)
        pool = [r for r in all_refs() if r[0] != 'r'] + bad_refs()
        plans = [[rnd.choice(pool) for _ in range(recipe['per'])] for _t in range(recipe['threads'])]
        expected: Dict[str, Tuple[str, Any]] = {}
        for plan in plans:
            for r in plan:
                key = repr(r)
                if key not in expected:
                    k, v, _ = parse_outcome(r)
                    expected[key] = (k, v)
        results: List[List[Any]] = [[None] * recipe['per'] for _ in plans]
        errors: List[str] = []
        start = threading.Barrier(recipe['threads'])

        def work(ti):
            try:
                start.wait()
                for j, r in enumerate(plans[ti]):
                    k, v, _ = parse_outcome(r)
                    results[ti][j] = (k, v)
            except BaseException as e:      # noqa: a crash of the worker thread itself
                errors.append(f'{exc_name(e)}: {e}')

        old = sys.getswitchinterval()
        sys.setswitchinterval(1e-6)
        try:
            threads = [threading.Thread(target=work, args=(i,)) for i in range(recipe['threads'])]
            for t in threads:
                t.start()
            for t in threads:
                t.join()
        finally:
            sys.setswitchinterval(old)
        if errors:
            return 'thread-crashed', short('; '.join(errors), 600)
        for ti, plan in enumerate(plans):
            for j, r in enumerate(plan):
                exp = expected[repr(r)]
                got = results[ti][j]
                if got != exp:
                    cls = 'valid' if r[0] != 'bad' else f'bad:{r[1]}'
                    e = exp[1] if exp[0] == 'exc' else 'view'
                    g = got[1] if got and got[0] == 'exc' else 'a different view'
                    return f'concurrent-result-differs:{cls}', short(
                        f'thread {ti} document #{j} {r!r}: sequential outcome {exp[0]}:{e}, concurrent outcome '
                        f'{got[0] if got else None}:{g}', 600)
        return None


# --------------------------------------------------------------------------------------
# C11.B.reclaim
# --------------------------------------------------------------------------------------

def live_pydbml_objects() -> Dict[str, int]:
    counts: Dict[str, int] = {}
    for o in gc.get_objects():
        t = type(o)
        mod = getattr(t, '__module__', '') or ''
        if mod.startswith('pydbml.') and t is not type:
            n = t.__name__
            counts[n] = counts.get(n, 0) + 1
    return counts


class Reclaim(BObl):
    id = 'C11.B.reclaim'
    property = 'C11'
    chunk = 2
    rule = ('for one document (valid or failing in one of the four phases): (a) weak references to the returned '
            'Database and to each of its tables, columns, enums, references, and to a PyDBMLParser driven by hand and its '
            'database, must be dead after the caller drops its references and gc.collect() runs; (b) after a warm-up '
            'parse, the number of live instances of pydbml classes (gc.get_objects) must be the same before and after a '
            'parse whose result/exception was dropped')
    bound = 'quick: every pool document once (~60); thorough: the same x 2 option settings x 3 repetitions'
    budget = {'quick': 20.0, 'thorough': 120.0}

    def cases(self, tier, seed):
        for r in all_refs() + bad_refs():
            if tier == 'quick':
                yield {'doc': r, 'props': needs_props(r)}
            else:
                for rep in range(3):
                    for p in (False, True):
                        yield {'doc': r, 'props': p or needs_props(r), 'rep': rep}

    def check(self, recipe):
        from pydbml import PyDBML
        from pydbml.parser.parser import PyDBMLParser
        ref, props = recipe['doc'], recipe['props']
        src = get_doc(ref)
        cls = 'valid' if ref[0] != 'bad' else f'bad:{ref[1]}'

        def run_public():
            try:
                return PyDBML(src, allow_properties=props)
            except Exception:
                return None

        # warm-up (one-time initialisation of the grammar is not a leak)
        run_public()
        gc.collect()
        # (a) weak references
        db = run_public()
        refs: List[Tuple[str, Any]] = []
        if db is not None:
            refs.append(('Database', weakref.ref(db)))
            for t in db.tables:
                refs.append(('Table', weakref.ref(t)))
                for c in t.columns:
                    refs.append(('Column', weakref.ref(c)))
            for e in db.enums:
                refs.append(('Enum', weakref.ref(e)))
            for r in db.refs:
                refs.append(('Reference', weakref.ref(r)))
            t = c = e = r = None
        db = None
        p = PyDBMLParser(src, allow_properties=props)
        try:
            p.parse()
        except Exception:
            pass
        refs.append(('PyDBMLParser', weakref.ref(p)))
        if p.database is not None:
            refs.append(('Database(parser)', weakref.ref(p.database)))
        p = None
        gc.collect()
        alive = [n for n, w in refs if w() is not None]
        if alive:
            holders = ''
            for n, w in refs:
                o = w()
                if o is not None:
                    rs = [type(x).__name__ for x in gc.get_referrers(o) if x is not refs][:6]
                    holders = f'{n} referred to by {rs}'
                    break
            return f'not-reclaimed:{alive[0]}:{cls}', short(f'after dropping every reference and gc.collect(), still alive: '
                                                           f'{sorted(set(alive))} ({len(alive)} objects) for {ref!r}; {holders}', 600)
        # (b) instance census
        before = live_pydbml_objects()
        run_public()
        gc.collect()
        after = live_pydbml_objects()
        if after != before:
            grown = {k: after.get(k, 0) - before.get(k, 0) for k in set(after) | set(before) if after.get(k, 0) != before.get(k, 0)}
            k = sorted(grown)[0]
            return f'instances-retained:{k}:{cls}', short(f'parsing {ref!r} and dropping the outcome changed the number of live '
                                                          f'pydbml instances: {grown}', 600)
        return None


OBLIGATIONS = [History(), NoSharing(), ActionsStable(), Threads(), Reclaim()]
