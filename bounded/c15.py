"""Bounded run-time-contract obligations for C15 (arbitrary properties are honoured exactly when enabled).

Documents come from spec/gen.py (allow_properties=True puts `key: 'value'` entries into table bodies and
column settings, mixed with ordinary settings, notes and index blocks) written by spec/surface.py.
"""
from __future__ import annotations

import copy
import random
from typing import Any, Dict, List, Tuple

from lib.bounded import BObl
from spec.gen import random_model
from spec.model import view, diff, normalize
from spec.surface import surface
from bounded.c01 import parse_real, evaluate, reduce_failure, _culprit_name, _path, _same, _chars

# spelling decisions that concern a table and its columns (what surrounds properties); everything else stays in
# documentation spelling so that spelling defects of other elements (C01's findings) do not hide C15's clauses
_DIMS = ['ml', 'order', 'space', 'comma', 'str', 'esc', 'pad', 'quote', 'bodypos', 'blank', 'indent', 'colsep',
         'notepos', 'noteform', 'pkword', 'explicitnull', 'nullform', 'cpos', 'cstyle', 'cspace', 'paren', 'declpublic']
_SITES = ['col', 'col_props', 'table', 'prop', 'prop_val', 'prop_key', 'note_col', 'note_table', 'note_idx', 'body',
          'body_end', 'indexes', 'idx', 'idx_name', 'idx_subject', 'idx_subjects', 'note', 'default', 'type',
          'col_name', 'table_name', 'table_note', 'top', 'between']
_KW = ['pk', 'primary_key', 'unique', 'increment', 'not_null', 'null', 'default', 'bool', 'note_setting', 'note_body',
       'indexes', 'headercolor', 'table', 'idx_type', 'idx_type_val', 'idx_name']
FREE = [f'{d}@{s}' for d in _DIMS for s in _SITES] + [f'kw@{k}' for k in _KW]


def has_properties(m) -> bool:
    return any(t['properties'] or any(c['properties'] for c in t['columns']) for t in m['tables'])


def strip_properties(m):
    m2 = copy.deepcopy(m)
    for t in m2['tables']:
        t['properties'] = []
        for c in t['columns']:
            c['properties'] = []
    return m2


def prop_model(seed: int, size: str = 'small') -> Dict[str, Any]:
    """A model with at least one property (tables/columns only matter here: no refs to other spelling sites)."""
    rng = random.Random(seed)
    for _ in range(20):
        m = random_model(rng, size, allow_properties=True)
        if has_properties(m):
            return m
    m['tables'][0]['properties'] = [['table_prop', 'another value']]
    return m


def props_of(v) -> List[Tuple[str, Any]]:
    out = []
    for i, t in enumerate(v['tables']):
        out.append((f'table.properties', i, t['properties']))
        for j, c in enumerate(t['columns']):
            out.append((f'column.properties', (i, j), c['properties']))
    return out


def _rt_class(v: str) -> str:
    """Class of a property value that does not survive db.dbml -> parse.  A function of the value only (fixed
    priority), so that the key names the defect and not the document it was found in."""
    if '\n' in v:
        return 'multiline-reindented'       # rendered as '''<newline><indented lines>''' and never de-indented on parse
    if '\\' in v:
        return 'backslash-unescaped'        # backslashes are written without escaping
    return 'other'


def _probe_rejected(kind: str, v: str) -> bool:
    """Does a single property with value v (on a table / a column) make db.dbml unparsable?"""
    try:
        db = parse_real("Table t {\n    id int\n}", True)
        holder = db.tables[0] if kind == 'table' else db.tables[0].columns[0]
        holder.properties = {'p': v}
        out = db.dbml
    except Exception:
        return False
    try:
        parse_real(out, True)
        return False
    except Exception:
        return True


def _rejected_class(m) -> str:
    for t in m['tables']:
        for kind, h in [('table', t)] + [('column', c) for c in t['columns']]:
            for _k, v in h['properties']:
                if _probe_rejected(kind, v):
                    return ('trailing-backslash' if v.endswith('\\') else
                            'triple-quote-in-value' if "'''" in v else 'other')
    return 'other'


# deterministic probe family: every value class on every site, alone and mixed with ordinary settings
PROBE_VALUES = {'plain': 'some value', 'squote': "it's", 'dquote': 'say "hi"', 'multiline': 'a\nb',
                'multiline-indented': 'a\n  b\nc', 'backslash': 'a\\b', 'trailing-backslash': 'x\\',
                'triple-quote': "q'''q", 'slashes': 'a // b', 'braces': '{x} [y]'}


def probe_model(rec):
    v = PROBE_VALUES[rec['value']]
    col = {'name': 'c', 'type': 'int'}
    t = {'name': 't', 'columns': [{'name': 'id', 'type': 'int'}, col]}
    if rec['mixed']:
        col.update({'pk': True, 'note': 'col note', 'default': {'kind': 'int', 'value': 1}})
        t.update({'note': 'table note', 'indexes': [{'subjects': [{'col': 'id'}]}]})
    props = [['p', v]] + ([['q', 'second']] if rec['mixed'] else [])
    if rec['site'] == 'table':
        t['properties'] = props
    else:
        col['properties'] = props
    return normalize({'tables': [t], 'enums': [], 'refs': [], 'table_groups': [], 'sticky_notes': [], 'project': None,
                      'allow_properties': True})


class Accept(BObl):
    id = 'C15.B.accept'
    property = 'C15'
    rule = ('probe family (seed-independent): one property with a value of each class (plain, quotes, multi-line, '
            'backslash, trailing backslash, triple quote, ...) on a table / a column, alone or mixed with ordinary settings.  '
            'random family: case = (model seed, spelling seed); the model has >= 1 property on a table or column (1-3 keys each, values '
            'single- and multi-line with quotes/backslashes), mixed with every ordinary column setting, notes and index '
            'blocks; spelling of the table and its columns free (one-line/multi-line lists, settings order, body '
            'positions, string styles), other elements in documentation spelling.  Contract: PyDBML(text, '
            'allow_properties=True) is accepted, view == model for the tables (properties exact and in order, ordinary '
            'settings intact), db.allow_properties is True, and re-parsing db.dbml gives the same properties.')
    bound = '80 probe documents (exhaustive: 2 sites x 10 value classes x alone/mixed x one-line/multi-line) + quick 500 random documents, thorough 15000'
    budget = {'quick': 20.0, 'thorough': 200.0}
    chunk = 16

    def cases(self, tier, seed):
        for site in ('table', 'column'):
            for value in PROBE_VALUES:
                for mixed in (False, True):
                    for ml in ('one', 'multi'):
                        yield {'family': 'probe', 'site': site, 'value': value, 'mixed': mixed, 'ml': ml}
        n = 500 if tier == 'quick' else 15000
        for i in range(n):
            yield {'m': seed * 1000003 + 900000 + i, 's': seed * 7919 + 5 * i + 3, 'size': 'small' if i % 3 else 'tiny'}

    def check(self, recipe):
        if recipe.get('family') == 'probe':
            m = probe_model(recipe)
            sp = {'seed': 0, 'pin': ['*'], 'force': {'ml': recipe['ml']}}
        else:
            m = prop_model(recipe['m'], recipe.get('size', 'small'))
            sp = {'seed': recipe['s'], 'free': FREE}
        text = surface(m, sp)
        try:
            db = parse_real(text, True)
            v = view(db)
        except Exception as e:
            try:                     # rejected without the properties too: acceptance of that document is C01's clause
                m0 = strip_properties(m)
                parse_real(surface(m0, sp), True)
            except Exception:
                return None
            sig = ('rejected', type(e).__name__)
            m_min, sp_min, culprits = reduce_failure(m, sp, sig)
            s3, text3, _u, detail3 = evaluate(m_min, sp_min)
            if not _same(s3, sig):
                text3, detail3 = text, f'{type(e).__name__}: {str(e)[:160]}'
            return (f'rejected:{sig[1]}:{_culprit_name(culprits, m_min, sig)}',
                    (f'expected the document to be accepted with allow_properties=True; observed {detail3}; spelling '
                     f'decisions that matter: {culprits}; reduced document:\n{text3[:450]}')[:900])
        if db.allow_properties is not True:
            return 'flag-not-propagated', f'PyDBML(text, allow_properties=True).allow_properties is {db.allow_properties!r}'
        if v != m:
            ds = diff(v, m)
            paths = sorted({_path(d) for d in ds if _path(d).startswith('tables') or _path(d) == 'allow_properties'})
            if paths:
                sig = ('field-mismatch', paths[0])
                ig = tuple({_path(d) for d in ds} - {paths[0]})
                m_min, sp_min, culprits = reduce_failure(m, sp, sig, ig)
                s3, text3, _u, detail3 = evaluate(m_min, sp_min, ig)
                if not _same(s3, sig):
                    text3, detail3 = text, '; '.join(d for d in ds if _path(d) == paths[0])[:300]
                return (f'field-mismatch:{paths[0]}:{_culprit_name(culprits, m_min, sig)}',
                        (f'expected the parsed tables to hold exactly the declared properties and settings; observed '
                         f'{detail3}; reduced document:\n{text3[:450]}')[:900])
        # round trip of the properties through db.dbml
        try:
            out = db.dbml
        except Exception as e:
            try:
                db.allow_properties = False
                db.dbml
            except Exception:
                return None          # rendering fails with or without properties: not C15's concern
            return f'render-raises:{type(e).__name__}', f'db.dbml raises {type(e).__name__}: {str(e)[:200]} only with the flag on; source:\n{text[:400]}'
        try:
            v2 = view(parse_real(out, True))
        except Exception as e:
            db.allow_properties = False
            try:
                parse_real(db.dbml, False)
            except Exception:
                return None          # the property-free rendering does not re-parse either: C02's concern
            why = _rejected_class(m)
            return (f'roundtrip-rejected:{why}',
                    (f'db.dbml with properties does not parse back ({type(e).__name__}: {str(e)[:120]}) while the rendering '
                     f'without properties does; rendered:\n{out[:450]}')[:900])
        a, b = props_of(v), props_of(v2)
        if len(a) != len(b):
            return None              # structure changed for reasons outside C15 (C02)
        for (kind, where, p1), (_k, _w, p2) in zip(a, b):
            if p1 == p2:
                continue
            if [k for k, _ in p1] != [k for k, _ in p2]:
                cls = 'keys'
                shown = f'{[k for k, _ in p1]} -> {[k for k, _ in p2]}'
            else:
                k, x, y = [(k, x, y) for (k, x), (_k2, y) in zip(p1, p2) if x != y][0]
                cls = _rt_class(x)
                shown = f'{k}: {x!r} -> {y!r}'
            frag = '\n'.join(l for l in out.split('\n') if any(k in l for k, _ in p1))[:250]
            return (f'roundtrip:{kind}:{cls}',
                    (f'expected properties to be rendered so that they round-trip; {kind} at {where}: {shown}; rendered '
                     f'lines:\n{frag}')[:900])
        return None


class Reject(BObl):
    id = 'C15.B.reject'
    property = 'C15'
    rule = ('the documents of C15.B.accept (each declares >= 1 property) parsed with the option off (default and '
            'explicit False) must raise pyparsing.ParseBaseException; alternating: all properties / only table '
            'properties / only column properties / a single property kept')
    bound = 'quick 700 documents, thorough 15000'
    budget = {'quick': 15.0, 'thorough': 150.0}
    chunk = 16

    def cases(self, tier, seed):
        n = 700 if tier == 'quick' else 15000
        for i in range(n):
            yield {'m': seed * 1000003 + 900000 + i, 's': seed * 7919 + 5 * i + 3, 'size': 'small' if i % 3 else 'tiny',
                   'keep': ('all', 'table', 'column', 'one')[i % 4], 'explicit': bool(i % 2)}

    def _model(self, recipe):
        m = prop_model(recipe['m'], recipe.get('size', 'small'))
        keep = recipe.get('keep', 'all')
        if keep == 'table' and any(t['properties'] for t in m['tables']):
            for t in m['tables']:
                for c in t['columns']:
                    c['properties'] = []
        elif keep == 'column' and any(c['properties'] for t in m['tables'] for c in t['columns']):
            for t in m['tables']:
                t['properties'] = []
        elif keep == 'one':
            first = True
            for t in m['tables']:
                for holder in [t] + t['columns']:
                    if holder['properties'] and first:
                        holder['properties'] = holder['properties'][:1]
                        first = False
                    else:
                        holder['properties'] = []
        return m

    def check(self, recipe):
        import pyparsing
        from pydbml import PyDBML
        m = self._model(recipe)
        sp = {'seed': recipe['s'], 'free': FREE}
        text = surface(m, sp)
        try:
            db = PyDBML(text, allow_properties=False) if recipe.get('explicit') else PyDBML(text)
        except pyparsing.ParseBaseException:
            return None
        except Exception as e:
            return (f'wrong-exception:{type(e).__name__}',
                    f'expected pyparsing.ParseBaseException with the option off; raised {type(e).__name__}: {str(e)[:200]}; '
                    f'document:\n{text[:450]}'[:900])
        where = 'table' if any(t['properties'] for t in m['tables']) else 'column'
        kept = [t.properties for t in db.tables] + [c.properties for t in db.tables for c in t.columns]
        return (f'accepted-with-option-off:{where}',
                (f'expected a syntax error with the option off; the document was accepted (properties stored: '
                 f'{[p for p in kept if p]}); document:\n{text[:450]}')[:900])


def _render(db) -> Tuple[Any, Any]:
    out = []
    for attr in ('dbml', 'sql'):
        try:
            out.append(('ok', getattr(db, attr)))
        except Exception as e:
            out.append(('raises', type(e).__name__))
    return tuple(out)


class Same(BObl):
    id = 'C15.B.same'
    property = 'C15'
    rule = ('property-free documents (the generator of C01.B.document with allow_properties=False, full spelling '
            'variation) parsed with the option off and on: same acceptance, equal views (except the flag itself), '
            'equal .dbml and equal .sql; a spelling rejected under both values is replaced by the next seed (<= 3 '
            'tries); non-trivial = accepted')
    bound = 'quick 500 documents x 2 option values, thorough 12000'
    budget = {'quick': 20.0, 'thorough': 200.0}
    chunk = 16
    _memo: Tuple[Any, Any] = (None, None)

    def cases(self, tier, seed):
        n = 500 if tier == 'quick' else 12000
        for i in range(n):
            yield {'m': seed * 1000003 + 1100000 + i, 's': seed * 7919 + 11 * i + 5,
                   'size': 'small' if i % 4 else 'medium'}

    def _run(self, recipe):
        key = repr(sorted(recipe.items()))
        if self._memo[0] == key:
            return self._memo[1]
        m = random_model(random.Random(recipe['m']), recipe.get('size', 'small'), allow_properties=False)
        res = None
        for k in range(3):
            text = surface(m, {'seed': recipe['s'] + k * 1000003})
            got = []
            for flag in (False, True):
                try:
                    db = parse_real(text, flag)
                    got.append(('ok', db))
                except Exception as e:
                    got.append(('raises', type(e).__name__))
            res = (text, got)
            if got[0][0] == 'ok' or got[1][0] == 'ok':
                break
        Same._memo = (key, res)
        return res

    def nontrivial(self, recipe):
        _text, got = self._run(recipe)
        return got[0][0] == 'ok' and got[1][0] == 'ok'

    def check(self, recipe):
        text, got = self._run(recipe)
        (s0, d0), (s1, d1) = got
        if s0 != 'ok' and s1 != 'ok':
            return None
        if s0 != s1:
            return ('option-changes-acceptance',
                    (f'a document without properties is {"accepted" if s0 == "ok" else "rejected (" + str(d0) + ")"} with the '
                     f'option off and {"accepted" if s1 == "ok" else "rejected (" + str(d1) + ")"} with it on; document:\n'
                     f'{text[:500]}')[:900])
        v0, v1 = view(d0), view(d1)
        if v1['allow_properties'] is not True or v0['allow_properties'] is not False:
            return 'flag-not-propagated', f'allow_properties off/on -> {v0["allow_properties"]!r}/{v1["allow_properties"]!r}'
        v1['allow_properties'] = False
        if v0 != v1:
            ds = diff(v0, v1)
            return (f'view-differs:{_path(ds[0])}',
                    (f'the option changes how a property-free document is parsed: {"; ".join(ds[:3])[:300]}; document:\n'
                     f'{text[:450]}')[:900])
        r0, r1 = _render(d0), _render(d1)
        for name, a, b in (('dbml', r0[0], r1[0]), ('sql', r0[1], r1[1])):
            if a != b:
                return (f'{name}-differs',
                        (f'.{name} of a property-free document differs between option off and on: {str(a)[:200]!r} vs '
                         f'{str(b)[:200]!r}; document:\n{text[:300]}')[:900])
        return None


class Flip(BObl):
    id = 'C15.B.flip'
    property = 'C15'
    rule = ('model with >= 1 property; A = PyDBML(text with properties, allow_properties=True), B = PyDBML(text of the '
            'same model without properties) whose objects then receive the same properties through the API.  Contract: '
            'A.dbml (on) shows properties; A off == B.dbml as parsed (exactly the property lines disappear); A on again '
            '== A on before; B with properties attached and option off renders none; B on == A on.  Documents whose '
            '.dbml raises regardless of the option are skipped')
    bound = 'quick 600 documents x 5 renderings, thorough 12000'
    budget = {'quick': 20.0, 'thorough': 200.0}
    chunk = 16

    def cases(self, tier, seed):
        n = 600 if tier == 'quick' else 12000
        for i in range(n):
            yield {'m': seed * 1000003 + 900000 + i, 's': seed * 7919 + 5 * i + 3, 'size': 'small' if i % 3 else 'tiny'}

    def check(self, recipe):
        m = prop_model(recipe['m'], recipe.get('size', 'small'))
        # documentation spelling for everything that is not a string or a list layout: this obligation is about rendering
        sp = {'seed': recipe['s'], 'free': [l for l in FREE if l.split('@')[0] in ('ml', 'order', 'str', 'bodypos', 'blank')]}
        m0 = strip_properties(m)
        m0['allow_properties'] = False
        try:
            text_a = surface(m, sp)
            text_b = surface(m0, sp)
            A = parse_real(text_a, True)
            B = parse_real(text_b, False)
        except Exception:
            return None                          # acceptance is C15.B.accept's clause
        try:
            a_on = A.dbml
            A.allow_properties = False
            a_off = A.dbml
            A.allow_properties = True
            a_on2 = A.dbml
            b_plain = B.dbml
            for t, mt in zip(B.tables, m['tables']):
                t.properties = {k: v for k, v in mt['properties']}
                for c, mc in zip(t.columns, mt['columns']):
                    c.properties = {k: v for k, v in mc['properties']}
            b_off = B.dbml
            B.allow_properties = True
            b_on = B.dbml
        except Exception as e:
            return None                          # rendering itself fails (C02/C08), not the option
        show = lambda s: s[:260]

        def first_diff(x, y):
            lx, ly = x.split('\n'), y.split('\n')
            for i, (p, q) in enumerate(zip(lx, ly)):
                if p != q:
                    return f'line {i + 1}: {p!r} vs {q!r}'
            return f'length {len(lx)} vs {len(ly)} lines; extra: {(lx[len(ly):] or ly[len(lx):])[:2]!r}'
        if a_on == a_off:
            return 'on-renders-no-properties', f'dbml identical with option on and off although properties are stored; dbml:\n{show(a_on)}'
        if a_on2 != a_on:
            return 'flip-not-restored', f'off -> on does not restore the rendering: {first_diff(a_on, a_on2)}'
        if a_off != b_plain:
            return ('off-not-exactly-property-free',
                    f'with the option off the dbml differs from the dbml of the same schema without properties: '
                    f'{first_diff(a_off, b_plain)}')
        if b_off != b_plain:
            return ('off-renders-api-properties',
                    f'properties attached through the API are rendered although the option is off: {first_diff(b_off, b_plain)}')
        if b_on != a_on:
            return ('on-differs-api-vs-parsed',
                    f'switching the option on for a database whose properties were attached through the API renders '
                    f'differently from the parsed one: {first_diff(b_on, a_on)}')
        return None


OBLIGATIONS = [Accept(), Reject(), Same(), Flip()]
