"""C01 extra: alias of one table equals the (bare) name of another one — addressing by schema.name,
by bare name in the public schema and by alias must still yield the declared model."""
from __future__ import annotations

import itertools

from lib.bounded import BObl


def docs():
    # (text, expected endpoints [(table1 full name, col, table2 full name, col)], expected group items)
    for sch_other, ref_form, addr, order in itertools.product(('public', 's2'), ('short', 'block', 'inline'),
                                                              ('qualified', 'bare'), ('alias-first', 'name-first')):
        if True:
            if True:
                other = 'users' if sch_other == 'public' else 's2.users'
                o_full = f'{sch_other}.users'
                blocks = [f'Table {"app.accounts"} as users {{\n  id int\n  uid int\n}}\n',
                          f'Table {other} {{\n  id int\n  aid int{{INLINE}}\n}}\n']
                # the declaration order of the two tables must not matter (the alias never shadows a full name)
                head = ''.join(blocks if order == 'alias-first' else reversed(blocks))
                target = {'qualified': f'{sch_other}.users', 'bare': 'users'}[addr]
                if sch_other != 'public' and addr == 'bare':
                    # bare `users` is then only the alias: it addresses app.accounts
                    exp_t = 'app.accounts'
                else:
                    exp_t = o_full
                if ref_form == 'inline':
                    text = head.replace('{INLINE}', f' [ref: > {target}.id]')
                    exp = [(o_full, 'aid', exp_t, 'id')]
                else:
                    text = head.replace('{INLINE}', '')
                    body = f'app.accounts.uid > {target}.id'
                    text += (f'Ref: {body}\n' if ref_form == 'short' else f'Ref {{\n  {body}\n}}\n')
                    exp = [('app.accounts', 'uid', exp_t, 'id')]
                yield {'text': text, 'expect': exp, 'group': None}
    yield {'text': 'Table a as b {\n id int\n}\nTable b {\n id int\n}\nTableGroup g {\n public.b\n a\n}\n',
           'expect': [], 'group': ['public.b', 'public.a']}
    yield {'text': 'Table b {\n id int\n}\nTable a as b {\n id int\n}\nTableGroup g {\n public.b\n b\n a\n}\n',
           'expect': [], 'group': ['public.b', 'public.b', 'public.a'], 'dup_group': True}
    yield {'text': 'Table b {\n id int\n}\nTable a as b {\n id int\n}\nTableGroup g {\n b\n a\n}\n',
           'expect': [], 'group': ['public.b', 'public.a']}
    yield {'text': 'Table b {\n id int\n}\nTable a as b {\n id int\n}\nRef: public.b.id > a.id\n',
           'expect': [('public.b', 'id', 'public.a', 'id')], 'group': None}
    yield {'text': 'Table a as b {\n id int\n}\nTable b {\n id int\n}\nRef: public.b.id > a.id\nRef: b.id < public.a.id\n',
           'expect': [('public.b', 'id', 'public.a', 'id'), ('public.b', 'id', 'public.a', 'id')], 'group': None,
           'skip_dup': True}


class AliasShadow(BObl):
    id = 'C01.B.alias-shadow'
    property = 'C01'
    rule = ('fixed documents in which one table\'s alias equals another table\'s name, in every reference form and '
            'addressing; expected endpoints/group items are written out by hand from the DBML semantics')
    bound = 'exhaustive over the fixed family (ref form x addressing x schema of the shadowed table)'

    def cases(self, tier, seed):
        for d in docs():
            if d.get('skip_dup') or d.get('dup_group'):
                continue
            yield d

    def exhaustive(self, tier):
        return True

    def check(self, d):
        from pydbml import PyDBML
        try:
            db = PyDBML(d['text'])
        except Exception as e:
            return ('rejected:' + type(e).__name__, f'{type(e).__name__}: {e}\n{d["text"]}')
        got = [(r.col1[0].table.full_name, r.col1[0].name, r.col2[0].table.full_name, r.col2[0].name) for r in db.refs]
        if got != [tuple(x) for x in d['expect']]:
            return ('endpoint-bound-to-alias-holder', f'expected endpoints {d["expect"]}, got {got}\n{d["text"]}')
        if d['group'] is not None:
            items = [t.full_name for t in db.table_groups[0].items]
            if items != d['group']:
                return ('group-item-bound-to-alias-holder', f'expected {d["group"]}, got {items}\n{d["text"]}')
        return None


OBLIGATIONS = [AliasShadow()]
