"""C15 extra: "enabling the option changes nothing else" for the spellings the document generator does
not produce — deprecated constraints written after the column type, comments, multi-line settings."""
from __future__ import annotations

import itertools

from lib.bounded import BObl
from spec.model import view

COLS = [
    'id integer pk',
    'id integer unique',
    'id integer pk unique',
    'email varchar unique [not null]',
    'id int pk [increment, note: "n"]',
    'id int [pk]',
    'id int [\n    pk,\n    not null\n  ]',
    'id int // trailing',
    'amount "decimal(10, 2)" unique [default: 0]',
]
BODY_EXTRA = ['', '  Note: "table note"\n', '  indexes {\n    id [unique]\n  }\n', '  // a comment line\n']


class SameWithoutProperties(BObl):
    id = 'C15.B.legacy-same'
    property = 'C15'
    rule = ('documents without any property, using constraint spellings outside the settings brackets, comments and '
            'multi-line settings; parsed with the option off and on: same view (apart from the flag), same SQL, same DBML')
    bound = 'exhaustive: 9 column spellings x pairs of columns x 4 body extras'

    def cases(self, tier, seed):
        for a, b in itertools.product(range(len(COLS)), repeat=2):
            if a == b:
                continue
            for x in range(len(BODY_EXTRA)):
                yield {'a': a, 'b': b, 'extra': x}

    def exhaustive(self, tier):
        return True

    def check(self, r):
        from pydbml import PyDBML
        second = COLS[r['b']].replace('id ', 'other ', 1).replace(' pk', '', 1) if COLS[r['b']].startswith('id') else COLS[r['b']]
        text = f"Table t {{\n  {COLS[r['a']]}\n  {second}\n{BODY_EXTRA[r['extra']]}}}\n"
        try:
            off = PyDBML(text)
        except Exception as e:
            return None         # not a document of the language: nothing to compare
        try:
            on = PyDBML(text, allow_properties=True)
        except Exception as e:
            return ('rejected-when-enabled', f'{type(e).__name__}: {e}\n{text}')
        vo, vn = view(off), view(on)
        vo.pop('allow_properties', None), vn.pop('allow_properties', None)
        if vo != vn:
            return ('view-differs', f'{text}\noff: {vo}\non:  {vn}')
        if off.sql != on.sql:
            return ('sql-differs', f'{text}\n{off.sql}\n---\n{on.sql}')
        if off.dbml != on.dbml:
            return ('dbml-differs', f'{text}\n{off.dbml}\n---\n{on.dbml}')
        return None


OBLIGATIONS = [SameWithoutProperties()]
