"""C14 (bounded): comments are captured on the element they belong to and are otherwise inert.

`C14.B.capture`  a comment written directly above a table, enum, enum item, index, reference, project or table
                 group, or trailing a reference, index, column or enum-item line, is that element's `.comment`
                 (trailing wins; several `//` lines join with '\\n'; a `/* */` block counts).  A comment above a
                 column is not promised and not tested.
`C14.B.inert`    metamorphic: a comment inserted at an admissible position changes nothing in view() except
                 `comment` fields.
`C14.B.render`   db.dbml / db.sql carry every line of every comment as a `//` / `--` line, PyDBML(db.dbml) has the same
                 comments, and removing the comment lines gives the rendering of the database without comments.

Comment texts are compared modulo surrounding blanks on every line (the statement does not fix the blank after `//`).

Keys:  not-captured:<element>:<placement>      placement in above | trailing | both-above-only
       trailing-does-not-win:<element>
       changed:<element>:<placement>  rejected:<element>:<placement>      (capture documents that are not inert)
       inert:<position-class>   inert:rejected:<position-class>
       render:<dbml|sql>:<element>            a comment line is missing / the rendering raises / re-parse differs
       statement-polluted:<dbml|sql>:<element>
<element> in table column index enum enum-item ref-short ref-long ref project table-group.
"""
from __future__ import annotations

import copy
import json
import random
from typing import Any, Dict, List, Optional, Tuple

from lib.bounded import BObl
from spec.gen import random_model
from spec.model import normalize, view, diff, build_api
from spec.surface import surface
from spec import fault as F
from bounded.c07 import sink_model, FIXED_SP

# ------------------------------------------------------------------ shared helpers


def parse(text: str, allow: bool):
    from pydbml import PyDBML
    return PyDBML(text, allow_properties=True) if allow else PyDBML(text)


def strip_comments(m: Dict[str, Any]) -> Dict[str, Any]:
    m = copy.deepcopy(m)

    def go(x):
        if isinstance(x, dict):
            for k, v in x.items():
                if k == 'comment':
                    x[k] = None
                else:
                    go(v)
        elif isinstance(x, list):
            for v in x:
                go(v)
    go(m)
    return m


def blank(v: Any) -> Any:
    return strip_comments(v)


def norm(c: Optional[str]) -> Optional[str]:
    if c is None:
        return None
    return '\n'.join(l.strip() for l in c.strip().split('\n'))


def subj_key(subjects) -> str:
    return json.dumps(subjects, sort_keys=True)


def comment_map(v: Dict[str, Any]) -> Dict[Tuple, Optional[str]]:
    """(element kind, identifying names...) -> comment, for a view or an abstract model."""
    out: Dict[Tuple, Optional[str]] = {}
    if v.get('project'):
        out[('project',)] = v['project']['comment']
    for e in v['enums']:
        out[('enum', e['schema'], e['name'])] = e['comment']
        for it in e['items']:
            out[('enum-item', e['schema'], e['name'], it['name'])] = it['comment']
    for t in v['tables']:
        out[('table', t['schema'], t['name'])] = t['comment']
        for c in t['columns']:
            out[('column', t['schema'], t['name'], c['name'])] = c['comment']
        for i in t['indexes']:
            out[('index', t['schema'], t['name'], subj_key(i['subjects']))] = i['comment']
    for r in v['refs']:
        out[('ref', r['type'], json.dumps([r['t1'], r['c1'], r['t2'], r['c2']]), bool(r['inline']))] = r['comment']
    for g in v['table_groups']:
        out[('table-group', g['name'])] = g['comment']
    return out


def doc_model(desc) -> Dict[str, Any]:
    if desc[0] == 'fixed':
        return sink_model(bool(desc[1]), multiline=True)
    _k, mseed, size, allow, _sp = desc
    return random_model(random.Random(mseed), size, bool(allow))


def doc_sp(desc):
    return FIXED_SP[desc[2]] if desc[0] == 'fixed' else desc[4]


_DOCS: Dict[str, Any] = {}


def load(desc, stripped: bool, want_view: bool = True):
    """(model, text, scanned document, view of the parsed text or the exception it raises)."""
    key = json.dumps([desc, stripped])
    hit = _DOCS.get(key)
    if hit is None:
        m = doc_model(desc)
        if stripped:
            m = strip_comments(m)
        text = surface(m, doc_sp(desc))
        doc = F.scan(text)
        if len(_DOCS) > 6:
            _DOCS.clear()
        hit = _DOCS[key] = [m, text, doc, None]
    if want_view and hit[3] is None:
        try:
            hit[3] = view(parse(hit[1], hit[0]['allow_properties']))
        except Exception as e:        # a well-formed document is refused: C01's business
            hit[3] = e
    return hit


def apply_edits(text: str, edits: List[Tuple[int, str]]) -> str:
    for pos, ins in sorted(edits, key=lambda e: -e[0]):
        text = text[:pos] + ins + text[pos:]
    return text


def docs_for(tier: str, seed: int, n_quick: int, n_thorough: int, salt: int) -> List[List[Any]]:
    docs: List[List[Any]] = [['fixed', False, k] for k in range(len(FIXED_SP))] + [['fixed', True, 3]]
    rng = random.Random(seed * 7919 + salt)
    n = n_quick if tier == 'quick' else n_thorough
    for i in range(n):
        docs.append(['rand', rng.randrange(10 ** 9), ('small', 'tiny', 'small', 'medium')[i % 4], i % 5 == 4,
                     rng.randrange(10 ** 6)])
    return docs


def excerpt(text: str, pos: int, width: int = 360) -> str:
    lo = max(0, pos - width // 2)
    hi = min(len(text), pos + width // 2)
    return ('...' if lo else '') + text[lo:hi] + ('...' if hi < len(text) else '')


# ------------------------------------------------------------------ C14.B.capture

BODIES = {
    'plain': ['plain comment'],
    'quotes': ['it\'s a "quoted" \'\'\' one'],
    'braces': ['{c} {} } { [x] ]'],
    'dbml': ['Table x {'],
    'multi': ['first line', "second 'line' // with slashes {", 'Ref: a.b > c.d'],
}
TRAILING_TEXT = {'plain': 'trailing words', 'quotes': 'trailing "q" it\'s', 'braces': 'trailing } {c}',
                 'dbml': 'Ref: a.b > c.d', 'multi': 'trailing after several lines'}
ELEMENTS = {        # element -> placements promised by the statement
    'table': ('above',), 'enum': ('above',), 'project': ('above',), 'table-group': ('above',),
    'enum-item': ('above', 'trailing', 'both'), 'index': ('above', 'trailing', 'both'),
    'ref-short': ('above', 'trailing', 'both'), 'ref-long': ('above', 'trailing', 'both'),
    'column': ('trailing',),
}
STYLES = ('slashes', 'block')

CAPTURE_COMBOS = [(el, pl, body, st) for el, pls in ELEMENTS.items() for pl in pls for body in BODIES for st in STYLES]


def capture_targets(doc: F.Doc, m: Dict[str, Any]) -> Dict[str, List[Dict[str, Any]]]:
    """element kind -> targets {key, above (offset, indent) | None, trailing offset | None}."""
    out: Dict[str, List[Dict[str, Any]]] = {k: [] for k in ELEMENTS}
    els = {k: [e for e in doc.elements if e.kind == k] for k in ('table', 'enum', 'ref', 'group', 'project')}

    def tgt(kind, key, above_line=None, indent='', trailing=None):
        if above_line is not None and above_line < 0:
            return
        out[kind].append({'key': key, 'above': above_line, 'indent': indent, 'trailing': trailing})

    for e, t in zip(els['table'], m['tables']):
        tgt('table', ('table', t['schema'], t['name']), e.line_start)
        cols = [l for l in e.block.lines if l.kind == 'column']
        for l, c in zip(cols, t['columns']):
            tgt('column', ('column', t['schema'], t['name'], c['name']), None, '', l.code_end)
        for l in e.block.lines:
            if l.kind == 'indexes':
                for il, ix in zip(l.block.lines, t['indexes']):
                    tgt('index', ('index', t['schema'], t['name'], subj_key(ix['subjects'])), il.line_start, il.indent,
                        il.code_end)
    for e, en in zip(els['enum'], m['enums']):
        tgt('enum', ('enum', en['schema'], en['name']), e.line_start)
        for l, it in zip(e.block.lines, en['items']):
            tgt('enum-item', ('enum-item', en['schema'], en['name'], it['name']), l.line_start, l.indent, l.code_end)
    alone = [r for r in m['refs'] if not r['inline']]
    for e, r in zip(els['ref'], alone):
        key = ('ref', r['type'], json.dumps([r['t1'], r['c1'], r['t2'], r['c2']]), False)
        if e.ref_line is not None:
            tgt('ref-short', key, e.line_start, '', e.ref_line.code_end)
        elif e.block.lines:
            tgt('ref-long', key, e.line_start, '', e.block.lines[0].code_end)
    for e, g in zip(els['group'], m['table_groups']):
        tgt('table-group', ('table-group', g['name']), e.line_start)
    if els['project'] and m['project']:
        tgt('project', ('project',), els['project'][0].line_start)
    return out


def above_text(lines: List[str], style: str, indent: str) -> str:
    if style == 'block':
        return indent + '/* ' + ('\n' + indent + '   ').join(lines) + ' */\n'
    return ''.join(f'{indent}// {l}\n' for l in lines)


def trailing_text(text: str, style: str) -> str:
    return f' /* {text} */' if style == 'block' else f' // {text}'


class Capture(BObl):
    id = 'C14.B.capture'
    property = 'C14'
    rule = ('comment-free base documents (hand-written document with every element kind in 4 spellings + seeded random '
            'models) ; one element chosen per case; cross product element kind (table, enum, enum item, index, reference '
            'short form, reference block form, project, table group: above; enum item, index, reference, column: '
            'trailing; both) x comment body (plain, quotes, braces, DBML syntax, three lines) x style (// lines, /* */ '
            'block).  The hand-written documents take the complete product, random documents a rotating window.  Oracle: '
            'the element found by its names in view() has the written text as comment (blanks around each line ignored); '
            'with both, the trailing text.')
    bound = 'quick: 5 fixed documents x 170 combinations + 24 random x 28; thorough: 5 x 170 (x6 targets) + 1200 random x 40'
    budget = {'quick': 20.0, 'thorough': 700.0}
    chunk = 24

    def cases(self, tier, seed):
        docs = docs_for(tier, seed, 24, 1200, 141)
        rng = random.Random(seed * 131 + 14)
        L = len(CAPTURE_COMBOS)
        window = 28 if tier == 'quick' else 40
        start = 0
        for desc in docs:
            reps = 1 if tier == 'quick' else 6
            if desc[0] == 'fixed':
                combos = CAPTURE_COMBOS * reps
            else:
                combos = [CAPTURE_COMBOS[(start + j) % L] for j in range(window)]
                start += window
            for el, pl, body, st in combos:
                yield {'doc': desc, 'element': el, 'placement': pl, 'body': body, 'style': st, 'pick': rng.randrange(10 ** 6)}

    def _target(self, recipe):
        m, text, doc, v0 = load(recipe['doc'], True)
        ts = capture_targets(doc, m)[recipe['element']]
        if not ts:
            return None
        return m, text, v0, ts[recipe['pick'] % len(ts)]

    def nontrivial(self, recipe):
        return self._target(recipe) is not None

    def check(self, recipe) -> Optional[Tuple[str, str]]:
        got = self._target(recipe)
        if got is None:
            return None
        m, text, v0, t = got
        if isinstance(v0, Exception):
            return None
        el, pl, body, st = recipe['element'], recipe['placement'], recipe['body'], recipe['style']
        edits = []
        above = trailing = None
        if pl in ('above', 'both'):
            above = '\n'.join(BODIES[body])
            edits.append((t['above'], above_text(BODIES[body], st, t['indent'])))
        if pl in ('trailing', 'both'):
            trailing = TRAILING_TEXT[body] if pl == 'both' else BODIES[body][0]
            # in `both`, the two comments use different styles half of the time
            tst = st if (pl != 'both' or recipe['pick'] % 2) else ('block' if st == 'slashes' else 'slashes')
            edits.append((t['trailing'], trailing_text(trailing, tst)))
        text1 = apply_edits(text, edits)
        where = f'{el} {pl} ({body}, {st})'
        shown = excerpt(text1, (t['above'] if t['above'] is not None else t['trailing']), 380)
        try:
            v1 = view(parse(text1, m['allow_properties']))
        except Exception as e:
            return (f'rejected:{el}:{pl}', f'{where}: the commented document is rejected with {type(e).__name__}: '
                    f'{str(e)[:120]}; it parses without the comment | {shown!r}')
        if blank(v1) != blank(v0):
            return (f'changed:{el}:{pl}', f'{where}: the comment changed more than comment fields: '
                    f'{"; ".join(diff(blank(v1), blank(v0))[:3])[:260]} (with != without) | {shown!r}')
        got_c = comment_map(v1).get(t['key'], KeyError)
        if got_c is KeyError:
            return None
        want = trailing if trailing is not None else above
        if norm(got_c) == norm(want):
            return None
        if pl == 'both':
            if norm(got_c) == norm(above):
                return (f'trailing-does-not-win:{el}', f'{where}: comment is the text above {got_c!r}; expected the trailing '
                        f'text {want!r} | {shown!r}')
            return (f'not-captured:{el}:both', f'{where}: comment is {got_c!r}; expected the trailing text {want!r} | {shown!r}')
        return (f'not-captured:{el}:{pl}', f'{where}: comment is {got_c!r}; expected {want!r} | {shown!r}')


# ------------------------------------------------------------------ C14.B.inert

COMMENT_TEXTS = ['plain comment', 'it\'s "q"', "'''", 'Table x {', '}', ']', '[', '{', 'Ref: a.b > c.d', 'note: \'x\'',
                 '{c} {}', 'indexes {', 'a, b', '`tick', 'é ✓', '', '-- sql', 'x // y', 'Note {', "'unterminated"]
BLOCK_BODIES = ['block', ' two\n   lines ', "it's\n}\n'''", 'Table x {\n  id int\n}']

OWN_LINE_BODIES = ('table-body', 'enum-body', 'group-body', 'project-body', 'indexes', 'ref-body', 'note-body')


def positions(doc: F.Doc) -> List[Dict[str, Any]]:
    """Admissible comment positions: {cls, pos, how} with how in own-line | line-end."""
    text = doc.text
    out: List[Dict[str, Any]] = []
    has_trailing = set()
    for ln in doc.lines:
        if ln.trailing_comment is not None:
            has_trailing.add(id(ln))
    # between top-level elements: own line before each element's header (joins or becomes its comment), at the end
    for e in doc.elements:
        if e.line_start >= 0:
            out.append({'cls': 'top:own-line', 'pos': e.line_start, 'how': 'own-line', 'indent': ''})
    end_pos = len(text)
    out.append({'cls': 'top:end-of-input', 'pos': end_pos, 'how': 'own-line-end', 'indent': ''})
    # the line of the opening and of the closing brace of a top-level element
    for e in doc.elements:
        if e.block is not None:
            kind = 'ref-long' if e.kind == 'ref' else e.kind
            p = e.block.open + 1
            if text[p:p + 1] in ('\n', ''):
                out.append({'cls': f'line-end:header:{kind}', 'pos': p, 'how': 'line-end'})
            p = e.block.close + 1
            if text[p:p + 1] in ('\n', ''):
                out.append({'cls': f'top:after-close:{kind}', 'pos': p, 'how': 'line-end'})
    for b in doc.blocks:
        if b.cls in OWN_LINE_BODIES:
            for ln in b.lines:
                if ln.line_start >= 0:
                    out.append({'cls': f'own-line:{b.cls}', 'pos': ln.line_start, 'how': 'own-line', 'indent': ln.indent})
            if b.close_line_start >= 0:
                out.append({'cls': f'own-line:{b.cls}', 'pos': b.close_line_start, 'how': 'own-line',
                            'indent': b.close_indent + '  '})
            # line ends inside the body
            for ln in b.lines:
                if id(ln) in has_trailing or ln.code_end < 0:
                    continue
                if ln.block is not None:
                    # `indexes {` / `Note {`: the line end is after the brace
                    p = ln.block.open + 1
                    if text[p:p + 1] in ('\n', ''):
                        out.append({'cls': f'line-end:{ln.kind}-open', 'pos': p, 'how': 'line-end'})
                    p = ln.block.close + 1
                    if text[p:p + 1] in ('\n', ''):
                        out.append({'cls': f'line-end:{ln.kind}-close', 'pos': p, 'how': 'line-end'})
                    continue
                if text[ln.code_end:ln.code_end + 1] in ('\n', ''):
                    out.append({'cls': f'line-end:{ln.kind}', 'pos': ln.code_end, 'how': 'line-end'})
    # multi-line settings lists: after '[' and after each ',' that ends a physical line; own lines inside
    for s in doc.settings:
        if not s.multiline:
            continue
        pts = [s.open + 1] + [c + 1 for c in s.commas]
        for p in pts:
            if text[p:p + 1] == '\n':
                out.append({'cls': f'settings-ml:line-end:{s.cls}', 'pos': p, 'how': 'line-end'})
        p = s.open
        while True:
            p = text.find('\n', p, s.close)
            if p < 0:
                break
            p += 1
            # the start of a physical line inside the list, provided it is not inside a string
            if any(t.start < p < t.end for t in _strings(doc, s)):
                continue
            out.append({'cls': f'settings-ml:own-line:{s.cls}', 'pos': p, 'how': 'own-line', 'indent': '    '})
    return out


_STR_CACHE: Dict[int, Any] = {}


def _strings(doc: F.Doc, s: F.Settings):
    key = id(doc)
    toks = _STR_CACHE.get(key)
    if toks is None:
        _STR_CACHE.clear()
        toks = _STR_CACHE[key] = [t for t in F.lex(doc.text) if t.kind in ('str1', 'str3', 'strd', 'expr', 'comment')]
    return [t for t in toks if s.open < t.start < s.close]


def comment_at(p: Dict[str, Any], body: str, style: str) -> str:
    if p['how'] == 'line-end':
        return f' /* {body} */' if style == 'block' else f' // {body}'
    ind = p.get('indent', '')
    txt = f'{ind}/* {body} */' if style == 'block' else f'{ind}// {body}'
    if p['how'] == 'own-line-end':
        return '\n' + txt
    return txt + '\n'


class Inert(BObl):
    id = 'C14.B.inert'
    property = 'C14'
    rule = ('base documents with and without comments of their own (hand-written + seeded random, seeded spelling); '
            'positions: own line before every top-level element and at end of input; end of the line of the opening and '
            'of the closing brace of every top-level element; own line before every line and before the closing brace '
            'of table / enum / group / project / indexes / reference / note bodies; end of every line of those bodies '
            'that has no comment yet (columns, indexes, enum items, group items, project fields, notes, properties, '
            'references, `indexes {`, `Note {` and their closing braces); inside multi-line settings lists after "[" / '
            '"," at a line end and on own lines.  Every position of the hand-written documents once, sampled positions of random documents; plus '
            'cases with 2-6 comments at once.  Text from 20 single-line bodies (quotes, braces, brackets, keywords) and '
            '/* */ blocks (also multi-line on own lines).  Oracle: view() with comment fields blanked is unchanged.')
    bound = 'quick: 5 fixed documents (all positions) + 20 random x 16 positions + 120 multi; thorough: 1000 random x 40 + 6000 multi'
    budget = {'quick': 20.0, 'thorough': 700.0}
    chunk = 24

    def cases(self, tier, seed):
        docs = docs_for(tier, seed, 20, 1000, 142)
        rng = random.Random(seed * 137 + 15)
        per = 16 if tier == 'quick' else 40
        for k, desc in enumerate(docs):
            stripped = k % 2 == 0
            _m, _t, doc, _v = load(desc, stripped, want_view=False)
            ps = positions(doc)
            idx = list(range(len(ps)))
            if desc[0] != 'fixed':
                # one of every class first, then random ones
                first: Dict[str, int] = {}
                for i, p in enumerate(ps):
                    first.setdefault(p['cls'], i)
                rest = [i for i in idx if i not in first.values()]
                rng.shuffle(rest)
                idx = (list(first.values()) + rest)[:per]
            for i in idx:
                yield {'doc': desc, 'stripped': stripped, 'at': [i], 'text': rng.randrange(10 ** 6)}
        n_multi = 120 if tier == 'quick' else 6000
        for j in range(n_multi):
            desc = docs[rng.randrange(len(docs))]
            stripped = rng.random() < 0.5
            _m, _t, doc, _v = load(desc, stripped, want_view=False)
            ps = positions(doc)
            k = min(len(ps), rng.randint(2, 6))
            yield {'doc': desc, 'stripped': stripped, 'at': sorted(rng.sample(range(len(ps)), k)), 'text': rng.randrange(10 ** 6)}

    def _edits(self, ps, at, text_seed):
        rng = random.Random(text_seed)
        edits = []
        for i in at:
            p = ps[i]
            style = 'block' if rng.random() < 0.3 else 'slashes'
            if style == 'block':
                body = rng.choice(BLOCK_BODIES if p['how'] != 'line-end' else BLOCK_BODIES[:1] + ['it\'s "q" }', 'Table x {'])
            else:
                body = rng.choice(COMMENT_TEXTS)
            edits.append((p['pos'], comment_at(p, body, style)))
        return edits

    def _run(self, m, text, v0, ps, at, text_seed):
        text1 = apply_edits(text, self._edits(ps, at, text_seed))
        try:
            v1 = view(parse(text1, m['allow_properties']))
        except Exception as e:
            return 'rejected', f'{type(e).__name__}: {str(e)[:120]}', text1
        if blank(v1) != blank(v0):
            return 'changed', '; '.join(diff(blank(v1), blank(v0))[:3])[:260] + ' (with != without)', text1
        return None, '', text1

    def check(self, recipe) -> Optional[Tuple[str, str]]:
        m, text, doc, v0 = load(recipe['doc'], recipe['stripped'])
        if isinstance(v0, Exception):
            return None
        ps = positions(doc)
        at = recipe['at']
        what, detail, text1 = self._run(m, text, v0, ps, at, recipe['text'])
        if what is None:
            return None
        culprit = None
        if len(at) > 1:
            # same texts, one position at a time
            rng_texts = self._edits(ps, at, recipe['text'])
            for i, (pos, ins) in zip(at, rng_texts):
                t1 = apply_edits(text, [(pos, ins)])
                try:
                    v1 = view(parse(t1, m['allow_properties']))
                    bad = blank(v1) != blank(v0)
                    w = 'changed'
                except Exception:
                    bad, w = True, 'rejected'
                if bad:
                    culprit, what, text1 = i, w, t1
                    break
            cls = ps[culprit]['cls'] if culprit is not None else 'combination'
        else:
            culprit = at[0]
            cls = ps[culprit]['cls']
        pos = ps[culprit]['pos'] if culprit is not None else ps[at[0]]['pos']
        key = f'inert:{cls}' if what == 'changed' else f'inert:rejected:{cls}'
        return key, (f'a comment at position class {cls} {"changes the parsed database" if what == "changed" else "makes the document unparseable"}: '
                     f'{detail} | {excerpt(text1, pos, 380)!r}')


# ------------------------------------------------------------------ C14.B.render

RENDER_TEXTS_1 = ['plain comment', "'; DROP TABLE x; --", '{c}', '{}', 'it\'s "q"', 'Table t {', '}', '{0} {name}',
                  'CREATE TABLE y (a int);', 'Ref: a.b > c.d', 'trailing \\', '%s %(x)s', 'é ✓']
RENDER_TEXTS_N = ['l1\nl2', 'para1\n\npara2', "'; DROP TABLE x; --\n{c}\n}", 'Table t {\n  id int\n}', 'a\n  indented\nb']
SQL_ELEMENTS = ('table', 'column', 'index', 'enum', 'enum-item', 'ref')
ALL_ELEMENTS = SQL_ELEMENTS + ('project', 'table-group')


def assign_comments(m: Dict[str, Any], rng: random.Random, p: float) -> Dict[str, Any]:
    m = strip_comments(m)

    def pick(multi=True):
        if rng.random() >= p:
            return None
        return rng.choice(RENDER_TEXTS_N) if multi and rng.random() < 0.35 else rng.choice(RENDER_TEXTS_1)
    if m['project']:
        m['project']['comment'] = pick()
    for e in m['enums']:
        e['comment'] = pick()
        for it in e['items']:
            it['comment'] = pick()
    for t in m['tables']:
        t['comment'] = pick()
        for c in t['columns']:
            c['comment'] = pick(multi=False)
        for i in t['indexes']:
            i['comment'] = pick()
    for r in m['refs']:
        if not r['inline']:
            r['comment'] = pick()
    for g in m['table_groups']:
        g['comment'] = pick()
    return m


def only_comment(m: Dict[str, Any], key: Tuple) -> Dict[str, Any]:
    """The model with every comment removed except the one of element `key`."""
    keep = comment_map(m).get(key)
    out = strip_comments(m)
    set_comment(out, key, keep)
    return out


def set_comment(m: Dict[str, Any], key: Tuple, value: Optional[str]) -> None:
    kind = key[0]
    if kind == 'project':
        m['project']['comment'] = value
    elif kind in ('enum', 'enum-item'):
        for e in m['enums']:
            if (e['schema'], e['name']) == key[1:3]:
                if kind == 'enum':
                    e['comment'] = value
                else:
                    for it in e['items']:
                        if it['name'] == key[3]:
                            it['comment'] = value
    elif kind in ('table', 'column', 'index'):
        for t in m['tables']:
            if (t['schema'], t['name']) == key[1:3]:
                if kind == 'table':
                    t['comment'] = value
                elif kind == 'column':
                    for c in t['columns']:
                        if c['name'] == key[3]:
                            c['comment'] = value
                else:
                    for i in t['indexes']:
                        if subj_key(i['subjects']) == key[3]:
                            i['comment'] = value
    elif kind == 'ref':
        for r in m['refs']:
            if ('ref', r['type'], json.dumps([r['t1'], r['c1'], r['t2'], r['c2']]), bool(r['inline'])) == key:
                r['comment'] = value
    elif kind == 'table-group':
        for g in m['table_groups']:
            if g['name'] == key[1]:
                g['comment'] = value


def comment_lines(text: str, prefix: str) -> List[str]:
    return [l.strip()[len(prefix):].strip() for l in text.split('\n') if l.strip().startswith(prefix)]


def code_lines(text: str, prefix: str) -> List[str]:
    return [l.rstrip() for l in text.split('\n') if l.strip() and not l.strip().startswith(prefix)]


def render_problems(m: Dict[str, Any], which: str) -> Optional[Tuple[str, str]]:
    """(problem class in missing | crash | polluted | reparse, detail) for renderer `which` of model m, or None."""
    prefix = '//' if which == 'dbml' else '--'
    cm = {k: c for k, c in comment_map(m).items() if c is not None}
    try:
        bare_db = build_api(strip_comments(m))
        bare = getattr(bare_db, which)
    except Exception:
        return None                     # rendering fails without any comment: not this property's business
    try:
        db = build_api(m)
        out = getattr(db, which)
    except Exception as e:
        return 'crash', f'rendering raises {type(e).__name__}: {str(e)[:120]} (it renders without comments)'
    have = comment_lines(out, prefix)
    pool = list(have)
    for key, c in cm.items():
        if which == 'sql' and key[0] not in SQL_ELEMENTS:
            continue
        for line in norm(c).split('\n'):
            if line in pool:
                pool.remove(line)
            else:
                return 'missing', f'comment line {line!r} of {key[0]} {key[1:]} is not a {prefix} line of db.{which}'
    a, b = code_lines(out, prefix), code_lines(bare, prefix)
    if a != b:
        d = next((i for i, (x, y) in enumerate(zip(a, b)) if x != y), min(len(a), len(b)))
        return 'polluted', (f'without its {prefix} lines db.{which} differs from the rendering without comments at line {d}: '
                            f'{a[d] if d < len(a) else None!r} != {b[d] if d < len(b) else None!r}')
    if which == 'dbml':
        try:
            parse(bare, m['allow_properties'])
        except Exception:
            return None                 # the comment-free rendering does not parse back: C02's business
        try:
            v = view(parse(out, m['allow_properties']))
        except Exception as e:
            return 'reparse', f'db.dbml is rejected with {type(e).__name__}: {str(e)[:120]} (it parses back without comments)'
        got = comment_map(v)
        for key, c in comment_map(m).items():
            if key in got and norm(got[key]) != norm(c):
                return 'reparse', f'PyDBML(db.dbml) has comment {got[key]!r} on {key[0]} {key[1:]}; the database has {c!r}'
    return None


class Render(BObl):
    id = 'C14.B.render'
    property = 'C14'
    rule = ('databases built through the public classes from seeded random models (and the hand-written one) whose '
            'elements get comments from 13 single-line and 5 multi-line texts (SQL injection text, {c}, {}, %s, braces, '
            'DBML syntax, empty line, indentation; columns single-line; inline references none), density 0.15-0.9.  Oracle '
            'per renderer (db.dbml: all elements; db.sql: tables, columns, indexes, enums, enum items, references): every '
            'comment line is a //- resp. --line; the non-comment, non-blank lines equal those of the rendering with '
            'comments cleared; PyDBML(db.dbml) has the same comment on every element found by name.  A failure is '
            'attributed to an element kind by re-running with one comment at a time.')
    bound = 'quick: 480 models (tiny/small/medium); thorough: 20000'
    budget = {'quick': 20.0, 'thorough': 700.0}
    chunk = 16

    def cases(self, tier, seed):
        rng = random.Random(seed * 139 + 16)
        n = 480 if tier == 'quick' else 20000
        for k in range(len(FIXED_SP)):
            yield {'doc': ['fixed', k % 2 == 1, 0], 'c': rng.randrange(10 ** 6), 'p': (0.3, 0.6, 0.9, 1.0)[k]}
        for i in range(n):
            yield {'doc': ['rand', rng.randrange(10 ** 9), ('small', 'tiny', 'small', 'medium')[i % 4], i % 5 == 4, 0],
                   'c': rng.randrange(10 ** 6), 'p': (0.15, 0.4, 0.9)[i % 3]}

    def model(self, recipe):
        return assign_comments(doc_model(recipe['doc']), random.Random(recipe['c']), recipe['p'])

    def nontrivial(self, recipe):
        return any(c is not None for c in comment_map(self.model(recipe)).values())

    def check(self, recipe) -> Optional[Tuple[str, str]]:
        m = self.model(recipe)
        for which in ('dbml', 'sql'):
            prob = render_problems(m, which)
            if prob is None:
                continue
            # attribute to one element kind
            element, detail = 'combination', prob[1]
            for key, c in sorted(comment_map(m).items(), key=lambda kv: ALL_ELEMENTS.index(kv[0][0])):
                if c is None:
                    continue
                p1 = render_problems(only_comment(m, key), which)
                if p1 is not None:
                    element, prob, detail = key[0], p1, f'{p1[1]} [only comment: {c!r} on {key[0]} {key[1:]}]'
                    break
            head = 'statement-polluted' if prob[0] == 'polluted' else 'render'
            return f'{head}:{which}:{element}', f'{detail} | model {json.dumps(recipe)}'
        return None


OBLIGATIONS = [Capture(), Inert(), Render()]
