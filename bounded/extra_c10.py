"""C10 extra: renderings are asked for BEFORE the edit as well (a cache filled by an earlier
rendering must not survive the edit)."""
from __future__ import annotations

import random

from lib.bounded import BObl
from spec.model import build_api, view
from spec import gen_api


EDITS = ['pk-flip', 'rename-table', 'rename-column', 'rename-schema', 'rename-enum', 'unique-flip', 'type',
         'note', 'alias', 'ref-type', 'ref-inline', 'default', 'not-null-flip', 'add-column', 'add-index', 'del-index']


def apply_edit(db, kind, rng):
    from pydbml.classes import Column, Index
    t = rng.choice(db.tables) if db.tables else None
    if t is None:
        return False
    c = rng.choice(t.columns) if t.columns else None
    if kind == 'pk-flip' and c is not None:
        c.pk = not c.pk
    elif kind == 'rename-table':
        t.name = t.name + '_r'
    elif kind == 'rename-column' and c is not None:
        c.name = c.name + '_r'
    elif kind == 'rename-schema':
        t.schema = 'sch2' if t.schema == 'public' else 'public'
    elif kind == 'rename-enum' and db.enums:
        e = rng.choice(db.enums)
        e.name = e.name + '_r'
    elif kind == 'unique-flip' and c is not None:
        c.unique = not c.unique
    elif kind == 'not-null-flip' and c is not None:
        c.not_null = not c.not_null
    elif kind == 'type' and c is not None and isinstance(c.type, str):
        c.type = 'bigint'
    elif kind == 'note' and c is not None:
        c.note.text = 'edited'
    elif kind == 'alias':
        t.alias = None if t.alias else 'al_' + t.name
    elif kind == 'ref-type' and db.refs:
        r = rng.choice(db.refs)
        r.type = {'>': '<', '<': '-', '-': '>', '<>': '<>'}[r.type]
    elif kind == 'ref-inline' and db.refs:
        r = rng.choice(db.refs)
        if len(r.col1) == 1 and len(r.col2) == 1:
            r.inline = not r._inline
    elif kind == 'default' and c is not None:
        c.default = 7
    elif kind == 'add-column':
        t.add_column(Column('added_' + str(len(t.columns)), 'int', pk=rng.random() < 0.5))
    elif kind == 'add-index' and c is not None:
        t.add_index(Index([c], unique=True))
    elif kind == 'del-index' and t.indexes:
        t.delete_index(0)
    else:
        return False
    return True


def renderings(db):
    out = {}
    for what in ('sql', 'dbml'):
        try:
            out['db.' + what] = getattr(db, what)
        except Exception as e:       # both sides must fail alike
            out['db.' + what] = 'EXC:' + type(e).__name__
        for i, t in enumerate(db.tables):
            try:
                out[f't{i}.{what}'] = getattr(t, what)
            except Exception as e:
                out[f't{i}.{what}'] = 'EXC:' + type(e).__name__
            for j, c in enumerate(t.columns):
                try:
                    out[f't{i}.c{j}.{what}'] = getattr(c, what)
                except Exception as e:
                    out[f't{i}.c{j}.{what}'] = 'EXC:' + type(e).__name__
    return out


class RenderEditRender(BObl):
    id = 'C10.B.render-edit-render'
    property = 'C10'
    rule = ('API-built database; every rendering of the database, its tables and columns is evaluated, then 1..4 seeded '
            'edits are applied, then the renderings are compared with those of a database rebuilt from the final view; '
            'distinct by (model seed, edit list)')
    bound = 'quick 600 / thorough 20000 seeded (model, edit sequence) pairs; models of gen_api.random_model'
    budget = {'quick': 15.0, 'thorough': 200.0}

    def cases(self, tier, seed):
        n = 600 if tier == 'quick' else 20000
        rng = random.Random(seed * 7919 + 11)
        for i in range(n):
            k = rng.randrange(1, 5)
            yield {'model_seed': rng.randrange(1 << 30), 'edits': [rng.choice(EDITS) for _ in range(k)],
                   'edit_seed': rng.randrange(1 << 30)}

    def check(self, recipe):
        m = gen_api.random_model(random.Random(recipe['model_seed']))
        try:
            db = build_api(m)
        except Exception:
            return None
        renderings(db)                      # fill whatever caches there may be
        rng = random.Random(recipe['edit_seed'])
        applied = []
        for e in recipe['edits']:
            try:
                if apply_edit(db, e, rng):
                    applied.append(e)
            except Exception:
                return None
        if not applied:
            return None
        after = renderings(db)
        try:
            fresh = build_api(view(db))
        except Exception:
            return None                     # the edit made the model non-rebuildable (clash): out of scope
        expect = renderings(fresh)
        for k in expect:
            if k in after and after[k] != expect[k]:
                return (f'stale-after-render:{applied[-1]}:{k.split(".")[-1]}',
                        f'{k} after edits {applied} differs from the rendering of a freshly built equal database:\n'
                        f'--- edited\n{after[k][:300]}\n--- fresh\n{expect[k][:300]}')
        return None

    def nontrivial(self, recipe):
        return True


OBLIGATIONS = [RenderEditRender()]
