"""C03 (bounded): the SQL DDL, read back by an independent reader, states exactly the model.

Obligation `C03.B.ddl`: for a database built through the public classes from abstract model m,
`read_ddl(db.sql)` must agree with `ddl(m)` (spec/read_ddl.py, written from the statement of C03)
on enums, tables, columns, primary keys, indexes and COMMENT ON statements; nothing extra, every
table once.  Where the db-level text is fine, each table's / enum's own `.sql` is read too.
"""
from __future__ import annotations

import json
import random
from typing import Any, Dict, List, Optional, Tuple

from lib.bounded import BObl
from spec.model import normalize, build_api
from spec.gen_api import FAMILIES, random_model, compact
from spec.read_ddl import read_ddl, compare, ReadError, unreadable_reasons, Mismatch

# keys that many models trigger on the unchanged tree go last so that they mask nothing else
_LATE = ('index-on-unqualified', 'comment-on-table-unqualified', 'comment-on-column-unqualified')


def pick(ms: List[Mismatch]) -> Optional[Mismatch]:
    if not ms:
        return None
    return sorted(ms, key=lambda x: (x.key in _LATE or x.key.startswith('element:'), x.key, x.message))[0]


def show(recipe: Any, limit: int = 330) -> str:
    s = json.dumps(recipe, sort_keys=True, ensure_ascii=False)
    return s if len(s) <= limit else s[:limit] + '...'


def brace_site(m: Dict[str, Any]) -> Optional[str]:
    """Where a brace-bearing user string of the model sits (the str.format crash class)."""
    def has(s):
        return isinstance(s, str) and ('{' in s or '}' in s)
    for r in m['refs']:
        if has(r['comment']):
            return 'ref-comment'
        if has(r['name']):
            return 'ref-name'
    for t in m['tables']:
        if has(t['name']) or has(t['schema']):
            return 'table-name'
        for c in t['columns']:
            if has(c['name']):
                return 'column-name'
            if has(c['type']):
                return 'column-type'
    return None


def crash_key(m: Dict[str, Any], exc: BaseException, site: str) -> str:
    b = brace_site(m)
    if b and isinstance(exc, (KeyError, IndexError, ValueError)):
        site = b
    return f'crash:{type(exc).__name__}@{site}'


def render_and_read(m: Dict[str, Any], recipe: Any):
    """-> (db, statements, None) or (None, None, (key, message) | None)."""
    db = build_api(m)          # a generator bug if this raises: let it surface as a harness error
    try:
        sql = db.sql
    except Exception as e:     # noqa: BLE001 - the code under test
        return None, None, (crash_key(m, e, 'db.sql'),
                            f'Database.sql raised {type(e).__name__}: {str(e)[:120]!r}; model {show(recipe)}')
    try:
        return db, read_ddl(sql), None
    except ReadError as e:
        why = unreadable_reasons(m)
        if why:
            return None, None, None          # the reader is not unambiguous on these strings: proves nothing
        return None, None, (f'unreadable:{e.where}', f'emitted SQL is not readable DDL ({e}); model {show(recipe)}')


def element_read(obj, what: str, m: Dict[str, Any], recipe: Any):
    try:
        text = obj.sql
    except Exception as e:     # noqa: BLE001
        return None, (f'element:{what}:' + crash_key(m, e, what), f'{what} raised {type(e).__name__}: {str(e)[:120]!r}; model {show(recipe)}')
    try:
        return read_ddl(text), None
    except ReadError as e:
        if unreadable_reasons(m):
            return None, None
        return None, (f'element:{what}:unreadable:{e.where}', f'{what} is not readable DDL ({e}): {text[:200]!r}')


C03_PARTS = ('types', 'tables', 'indexes', 'comments')


class DdlReadsBack(BObl):
    id = 'C03.B.ddl'
    property = 'C03'
    rule = ('API-built databases from abstract models: exhaustive families (one probed column: 16 flag sets x 13 '
            'defaults incl. 0/False/\'\'/expressions x plain/array/parametrised/enum types x public/non-public schema; '
            'pk layouts: every pk subset of 3 columns x pk-index shapes x other index x inline/plain ref; index shapes x '
            'unique x type x name x schema; table/column notes incl. quotes and line breaks; enums in 3 schemas; '
            'identifier shapes with spaces/dots; same table name in two schemas) plus seeded random models '
            '(<=4 tables x <=4 columns, all options, refs of all kinds). Non-trivial = at least one table. '
            'Oracle: read_ddl(db.sql) vs ddl(m) from the statement; then table.sql / enum.sql against the sub-model.')
    bound = 'quick: 3199 enumerated + 4000 random models; thorough: 3199 enumerated + 100000 random; <=4 tables x <=4 columns'
    budget = {'quick': 22.0, 'thorough': 280.0}
    chunk = 48
    families = ('columns', 'pk_layouts', 'indexes', 'notes', 'enums', 'names', 'tables')
    n_random = {'quick': 4000, 'thorough': 100000}

    def cases(self, tier, seed):
        for fam in self.families:
            for m in FAMILIES[fam]():
                yield {'fam': fam, 'm': compact(m)}
        rng = random.Random(seed * 1000003 + 3)
        for _ in range(self.n_random.get(tier, 4000)):
            yield {'fam': 'random', 'm': compact(random_model(rng))}

    def nontrivial(self, recipe):
        return bool(recipe['m'].get('tables'))

    def check(self, recipe) -> Optional[Tuple[str, str]]:
        m = normalize(recipe['m'])
        db, stmts, fail = render_and_read(m, recipe)
        if db is None:
            return fail
        ms = [x for x in compare(m, stmts, parts=C03_PARTS) if x.prop == 'C03']
        seen = {x.key for x in ms}
        # element level: a table's own .sql is that table's CREATE TABLE + its indexes + its comments,
        # an enum's own .sql is its CREATE TYPE; reported only for classes not already seen at db level
        for t, tm in zip(db.tables, m['tables']):
            sub = dict(m, tables=[tm], refs=[], enums=[])
            st, f = element_read(t, 'table.sql', m, recipe)
            if f:
                ms.append(Mismatch('C03', f[0], f[1]))
            if st is not None:
                for x in compare(sub, st, parts=('tables', 'indexes', 'comments')):
                    if x.prop == 'C03' and x.key not in seen:
                        ms.append(Mismatch('C03', 'element:table.sql:' + x.key, x.message))
        for e, em in zip(db.enums, m['enums']):
            sub = dict(m, tables=[], refs=[], enums=[em])
            st, f = element_read(e, 'enum.sql', m, recipe)
            if f:
                ms.append(Mismatch('C03', f[0], f[1]))
            if st is not None:
                for x in compare(sub, st, parts=('types',)):
                    if x.prop == 'C03' and x.key not in seen:
                        ms.append(Mismatch('C03', 'element:enum.sql:' + x.key, x.message))
        x = pick(ms)
        if x is None:
            return None
        return x.key, (x.message[:330] + f' | model {show(recipe, 250)}')


OBLIGATIONS = [DdlReadsBack()]
