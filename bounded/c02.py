"""C02 — DBML round trip (API-built and parsed databases).  Bounded run-time contract on the real code.

C02.B.roundtrip   db -> .dbml -> PyDBML -> same content (view), and .dbml of the re-parsed database is
                  byte-identical (fixpoint); db ranges over (a) the repository's own documents, parsed,
                  (b) single-feature probes and a fixed enumeration of feature combinations over the
                  DBML-expressible value domain, (c) seeded random models combining the features.

Keys come from a fixed vocabulary: each is the label of a single-feature probe family (see "probes"); a failing
composite model is attributed to the failing probes whose feature it contains, else other:<site>.
Comments are not part of the content C02 promises (C14 owns them) and are ignored in the comparison.
"""
from __future__ import annotations

import copy
import random
import re
from typing import Any, Dict, Iterator, List, Optional, Tuple

from lib.bounded import BObl
from bounded._text_models import exc_line, innermost_pydbml_function, parseable_seed_documents, seed_documents

ODD_NAMES = ['a b', 'Table', 'note', 'indexes', 'ref', '1x', 'é', 'a-b', '{x}']   # need quoting / reserved words
DOTTED = 'a.b'                                                                  # own probe family
NAME_POOL = ODD_NAMES
NAME_POSITIONS = ['table', 'table_schema', 'alias', 'column', 'enum', 'enum_schema', 'enum_item', 'index_name',
                  'ref_name', 'group', 'project', 'sticky_note']
KEYWORDS = {'table', 'ref', 'enum', 'note', 'indexes', 'project', 'tablegroup', 'as', 'pk', 'unique', 'null',
            'not', 'increment', 'default', 'true', 'false', 'primary', 'key', 'name', 'type'}
INDEX_TYPES = ['brin', 'btree', 'gin', 'gist', 'hash', 'spgist']
REF_ACTIONS = ['no action', 'restrict', 'cascade', 'set null', 'set default']


# =========================================================================== comparison

def _content(db) -> Dict[str, Any]:
    """view(db), normalised, without comments (C02 lists names, types, flags, defaults, notes, reference
    endpoints/kinds/inline-ness, groups, sticky notes, project; comments belong to C14)."""
    from spec.model import view, normalize
    m = normalize(view(db))
    if m['project']:
        m['project']['comment'] = None
    for e in m['enums']:
        e['comment'] = None
        for i in e['items']:
            i['comment'] = None
    for t in m['tables']:
        t['comment'] = None
        for c in t['columns']:
            c['comment'] = None
        for i in t['indexes']:
            i['comment'] = None
    for r in m['refs']:
        r['comment'] = None
    for g in m['table_groups']:
        g['comment'] = None
    # DBML text fixes the position of an inline reference (the settings of its first column) and puts all
    # stand-alone references after the tables, so the relative order of references is expressible only among
    # the stand-alone ones, and among the inline ones of the same column.
    tpos = {(t['schema'], t['name']): (k, {c['name']: j for j, c in enumerate(t['columns'])})
            for k, t in enumerate(m['tables'])}

    def where(r):
        k, cols = tpos.get(tuple(r['t1'] or ()), (len(tpos), {}))
        return (k, cols.get(r['c1'][0] if r['c1'] else None, 1 << 30))
    refs = m.pop('refs')
    m['refs'] = [r for r in refs if not r['inline']]
    m['inline_refs'] = sorted((r for r in refs if r['inline']), key=where)
    return m


def _generic(path: str) -> str:
    p = re.sub(r'\[\d+\]', '', path).strip('.')
    return p.split(':')[0]


def roundtrip(db, allow_properties: bool) -> Optional[Tuple[str, str, str, str]]:
    """The contract.  None or (mode, generic path, message, rendered text)."""
    from pydbml import PyDBML
    from spec.model import diff
    before = _content(db)
    try:
        text = db.dbml
    except Exception as e:
        return ('render-error', type(e).__name__, f'Database.dbml raised {exc_line(e)} in {innermost_pydbml_function(e)}', '')
    try:
        db2 = PyDBML(text, allow_properties=True) if allow_properties else PyDBML(text)
    except Exception as e:
        where = ''
        ln = getattr(e, 'lineno', None)
        lines = text.split('\n')
        if isinstance(ln, int) and 1 <= ln <= len(lines):
            where = f'; rendered line {ln}: {lines[ln - 1].strip()[:90]!r}'
        return ('reparse-error', '', f'rendered DBML does not parse back: {exc_line(e)[:140]}{where}', text)
    after = _content(db2)
    if after != before:
        d = diff(before, after)
        return ('differs', _generic(d[0]) if d else '', 'content after the round trip differs (left: before, right: after): '
                + '; '.join(d[:3]), text)
    try:
        text2 = db2.dbml
    except Exception as e:
        return ('not-fixpoint', 'render', f'.dbml of the re-parsed database raised {exc_line(e)}', text)
    if text2 != text:
        a, b = text.split('\n'), text2.split('\n')
        k = next((i for i, (x, y) in enumerate(zip(a, b)) if x != y), min(len(a), len(b)))
        return ('not-fixpoint', '', 'rendering the re-parsed database gives different text; first differing line '
                f'{k + 1}: {(a[k] if k < len(a) else "<end>")!r} vs {(b[k] if k < len(b) else "<end>")!r}', text)
    return None


def _clear_comments(db) -> None:
    """Comments are C14's subject (a comment above a column is not kept, by design); the parsed database is
    taken without them so that the byte-identity clause is evaluated on what C02 promises."""
    from bounded._text_models import elements_of
    for _, el in elements_of(db):
        if getattr(el, 'comment', None) is not None:
            el.comment = None


def run_model(m) -> Optional[Tuple[str, str, str, str]]:
    from spec.model import build_api
    db = build_api(m)
    return roundtrip(db, bool(m.get('allow_properties')))


# =========================================================================== renaming in the abstract model

def _plain(name: str) -> bool:
    return bool(re.fullmatch(r'[A-Za-z_][A-Za-z0-9_]*', name)) and name.lower() not in KEYWORDS


def _fresh(prefix: str, taken) -> str:
    k = 1
    while f'{prefix}{k}' in taken:
        k += 1
    return f'{prefix}{k}'


def rename_table(m, ti, schema, name):
    t = m['tables'][ti]
    old = [t['schema'], t['name']]
    t['schema'], t['name'] = schema, name
    for r in m['refs']:
        for k in ('t1', 't2'):
            if r[k] == old:
                r[k] = [schema, name]
    for g in m['table_groups']:
        g['items'] = [[schema, name] if it == old else it for it in g['items']]


def rename_column(m, ti, ci, name):
    t = m['tables'][ti]
    old = t['columns'][ci]['name']
    t['columns'][ci]['name'] = name
    key = [t['schema'], t['name']]
    for r in m['refs']:
        if r['t1'] == key:
            r['c1'] = [name if c == old else c for c in r['c1']]
        if r['t2'] == key:
            r['c2'] = [name if c == old else c for c in r['c2']]
    for i in t['indexes']:
        for s in i['subjects']:
            if s.get('col') == old:
                s['col'] = name


def rename_enum(m, ei, schema, name):
    e = m['enums'][ei]
    old = [e['schema'], e['name']]
    e['schema'], e['name'] = schema, name
    for t in m['tables']:
        for c in t['columns']:
            if isinstance(c['type'], dict) and c['type']['enum'] == old:
                c['type'] = {'enum': [schema, name]}


def _delete_table(m, ti):
    t = m['tables'].pop(ti)
    key = [t['schema'], t['name']]
    m['refs'] = [r for r in m['refs'] if r['t1'] != key and r['t2'] != key]
    for g in m['table_groups']:
        g['items'] = [it for it in g['items'] if it != key]


def _delete_column(m, ti, ci):
    t = m['tables'][ti]
    c = t['columns'].pop(ci)
    key = [t['schema'], t['name']]
    m['refs'] = [r for r in m['refs'] if not ((r['t1'] == key and c['name'] in r['c1']) or
                                              (r['t2'] == key and c['name'] in r['c2']))]
    t['indexes'] = [i for i in t['indexes'] if not any(s.get('col') == c['name'] for s in i['subjects'])]


def _delete_enum(m, ei):
    e = m['enums'].pop(ei)
    key = [e['schema'], e['name']]
    for t in m['tables']:
        for c in t['columns']:
            if isinstance(c['type'], dict) and c['type']['enum'] == key:
                c['type'] = 'int'


# =========================================================================== value classes

def _name_class(name: str) -> Optional[str]:
    if _plain(name):
        return None
    if name.lower() in KEYWORDS:
        return 'keyword'
    if ' ' in name:
        return 'space'
    if '.' in name:
        return 'dot'
    if '{' in name or '}' in name:
        return 'brace'
    if '-' in name:
        return 'dash'
    if any(ord(ch) > 127 for ch in name):
        return 'non-ascii'
    if name[:1].isdigit():
        return 'digit-start'
    return 'other'


def _type_class(ty) -> Optional[str]:
    if isinstance(ty, dict):
        return 'enum' if ty['enum'][0] == 'public' else 'schema-enum'
    if ty == 'int' or re.fullmatch(r'\w+', ty):
        return None
    if re.fullmatch(r'\w+\(.*\)', ty, flags=re.S):
        return 'args'
    if re.fullmatch(r'\w+\[\]', ty):
        return 'array'
    if re.fullmatch(r'\w+\.\w+', ty):
        return 'dotted'
    if ' ' in ty:
        return 'multiword'
    return 'other'


def _default_class(d) -> Optional[str]:
    if d is None:
        return None
    k, v = d['kind'], d['value']
    if k == 'int':
        return 'int:0' if v == 0 else 'int'
    if k == 'float':
        return 'float:0.0' if float(v) == 0 else 'float'
    if k == 'bool':
        return f'bool:{v}'
    if k == 'expr':
        return 'expr'
    if k == 'str':
        if v == '':
            return 'str:empty'
        if v.lower() in ('true', 'false'):
            return 'str:bool-word'
        if v.lower() == 'null':
            return 'str:NULL' if v == 'NULL' else 'str:null-word'
        if re.fullmatch(r'\d+(\.\d+)?', v):
            return 'str:number'
        return 'str'
    return k


# =========================================================================== model builders

def _col(name='c1', type='int', **kw):
    d = {'name': name, 'type': type}
    d.update(kw)
    return d


def _table(name='t1', cols=None, **kw):
    d = {'name': name, 'columns': cols if cols is not None else [_col('id'), _col('c2')]}
    d.update(kw)
    return d


def _ref(type='>', t1=('public', 't1'), c1=('id',), t2=('public', 't2'), c2=('id',), **kw):
    d = {'type': type, 't1': list(t1), 'c1': list(c1), 't2': list(t2), 'c2': list(c2)}
    d.update(kw)
    return d


def name_model(pos: str, n: str):
    """Rich skeleton in which the name at position `pos` is `n` and is used everywhere a name can be used."""
    v = {p: None for p in NAME_POSITIONS}
    v[pos] = n
    S = v['table_schema'] or 'public'
    T = v['table'] or 't1'
    C = v['column'] or 'id'
    ES = v['enum_schema'] or 'public'
    E = v['enum'] or 'e1'
    m = {
        'enums': [{'schema': ES, 'name': E, 'items': [{'name': v['enum_item'] or 'i1'}, {'name': 'i2'}]}],
        'tables': [
            {'schema': S, 'name': T, 'alias': v['alias'],
             'columns': [_col(C, pk=True), _col('c2', {'enum': [ES, E]}), _col('c3')],
             'indexes': [{'subjects': [{'col': C}], 'name': v['index_name'] or 'ix1'},
                         {'subjects': [{'col': C}, {'col': 'c2'}], 'unique': True}]},
            _table('t2', [_col('id'), _col('k'), _col('k2')]),
        ],
        'refs': [_ref('>', ('public', 't2'), ('id',), (S, T), (C,), name=v['ref_name'] or 'r1'),
                 _ref('<', ('public', 't2'), ('k',), (S, T), (C,), inline=True),
                 _ref('-', (S, T), (C,), ('public', 't2'), ('k2',), inline=True),
                 _ref('<>', (S, T), (C, 'c3'), ('public', 't2'), ('k', 'k2'))],
        'table_groups': [{'name': v['group'] or 'g1', 'items': [[S, T], ['public', 't2']]}],
        'project': {'name': v['project'] or 'p1', 'items': [['database_type', 'PostgreSQL']]},
        'sticky_notes': [{'name': v['sticky_note'] or 'sn1', 'text': 'x'}],
    }
    return m


TYPES = ['int', 'varchar(255)', 'decimal(10, 2)', 'numeric(10,2)', 'int[]', 'character varying', 'double precision',
         'timestamp with time zone', 'x.y', 'character varying(32)', 'VARCHAR', 'int4', '_t']
DEFAULTS = [
    {'kind': 'int', 'value': 0}, {'kind': 'int', 'value': 1}, {'kind': 'int', 'value': 42},
    {'kind': 'float', 'value': '0.0'}, {'kind': 'float', 'value': '1.5'}, {'kind': 'float', 'value': '10.25'},
    {'kind': 'bool', 'value': True}, {'kind': 'bool', 'value': False},
    {'kind': 'str', 'value': ''}, {'kind': 'str', 'value': 'a'}, {'kind': 'str', 'value': 'a b'},
    {'kind': 'str', 'value': 'true'}, {'kind': 'str', 'value': 'false'}, {'kind': 'str', 'value': 'True'},
    {'kind': 'str', 'value': 'null'}, {'kind': 'str', 'value': 'NULL'}, {'kind': 'str', 'value': '0'},
    {'kind': 'str', 'value': '1.5'}, {'kind': 'str', 'value': "it's"}, {'kind': 'str', 'value': 'say "x"'},
    {'kind': 'expr', 'value': 'now()'}, {'kind': 'expr', 'value': "a + 'b'"}, {'kind': 'expr', 'value': 'x'},
]
ML = 'line one\n  indented two\n\nlast'


# =========================================================================== probes: the key vocabulary
#
# Every key is the fixed label of a *probe*: a family of single-feature models on a plain skeleton.  A failing
# composite model (parsed document, settings combination, random model) is classified by the probes whose
# feature it contains and which fail on the current tree; if the model still fails with those features
# neutralised, or contains no failing probe's feature, the key is other:<site>.  Keys never depend on a seed
# or on a search.

DEFAULT_KEYS = {'int:0': 'falsy-default-dropped:0', 'float:0.0': 'falsy-default-dropped:0.0',
                'bool:False': 'falsy-default-dropped:False', 'str:empty': 'falsy-default-dropped:empty',
                'str:bool-word': 'string-default-becomes-bool', 'str:null-word': 'string-default-becomes-null'}
ML_TEXTS = [ML, 'a\nb']


def _columns(m):
    for t in m['tables']:
        for c in t['columns']:
            yield c


def _text_slots(m, site):
    """(container, key) pairs holding the text of `site` in a normalised model."""
    if site == 'table-note':
        return [(t, 'note') for t in m['tables']]
    if site == 'column-note':
        return [(c, 'note') for c in _columns(m)]
    if site == 'index-note':
        return [(i, 'note') for t in m['tables'] for i in t['indexes']]
    if site == 'enum-item-note':
        return [(i, 'note') for e in m['enums'] for i in e['items']]
    if site == 'group-note':
        return [(g, 'note') for g in m['table_groups']]
    if site == 'project-note':
        return [(m['project'], 'note')] if m['project'] else []
    if site == 'sticky-note':
        return [(n, 'text') for n in m['sticky_notes']]
    if site == 'table-property':
        return [(p, 1) for t in m['tables'] for p in t['properties']]
    if site == 'column-property':
        return [(p, 1) for c in _columns(m) for p in c['properties']]
    if site == 'project-field':
        return [(p, 1) for p in (m['project']['items'] if m['project'] else [])]
    raise KeyError(site)


def _ml_model(site, text):
    if site == 'table-note':
        return {'tables': [_table(note=text), _table('t2')]}
    if site == 'column-note':
        return {'tables': [_table(cols=[_col('id', note=text), _col('c2')])]}
    if site == 'index-note':
        return {'tables': [_table(indexes=[{'subjects': [{'col': 'id'}], 'note': text}, {'subjects': [{'col': 'c2'}]}])]}
    if site == 'enum-item-note':
        return {'enums': [{'name': 'e1', 'items': [{'name': 'i1', 'note': text}, {'name': 'i2', 'note': 'n'}]}]}
    if site == 'group-note':
        return {'tables': [_table()], 'table_groups': [{'name': 'g1', 'items': [['public', 't1']], 'note': text}]}
    if site == 'project-note':
        return {'project': {'name': 'p1', 'note': text, 'items': [['k', 'v']]}, 'tables': [_table()]}
    if site == 'sticky-note':
        return {'sticky_notes': [{'name': 'sn1', 'text': text}, {'name': 'sn2', 'text': 'x'}], 'tables': [_table()]}
    if site == 'table-property':
        return {'allow_properties': True, 'tables': [_table(properties=[['k', text], ['k2', 'v']])]}
    if site == 'column-property':
        return {'allow_properties': True, 'tables': [_table(cols=[_col('id', properties=[['k', text]]), _col('c2')])]}
    if site == 'project-field':
        return {'project': {'name': 'p1', 'items': [['k', text], ['k2', 'v']]}, 'tables': [_table()]}
    raise KeyError(site)


ML_SITES = ['table-note', 'column-note', 'index-note', 'enum-item-note', 'group-note', 'project-note', 'sticky-note',
            'table-property', 'column-property', 'project-field']


def _names_at(m, pos):
    if pos == 'table':
        return [t['name'] for t in m['tables']]
    if pos == 'table_schema':
        return [t['schema'] for t in m['tables'] if t['schema'] != 'public']
    if pos == 'alias':
        return [t['alias'] for t in m['tables'] if t['alias']]
    if pos == 'column':
        return [c['name'] for c in _columns(m)]
    if pos == 'enum':
        return [e['name'] for e in m['enums']]
    if pos == 'enum_schema':
        return [e['schema'] for e in m['enums'] if e['schema'] != 'public']
    if pos == 'enum_item':
        return [i['name'] for e in m['enums'] for i in e['items']]
    if pos == 'index_name':
        return [i['name'] for t in m['tables'] for i in t['indexes'] if i['name']]
    if pos == 'ref_name':
        return [r['name'] for r in m['refs'] if r['name']]
    if pos == 'group':
        return [g['name'] for g in m['table_groups']]
    if pos == 'project':
        return [m['project']['name']] if m['project'] else []
    if pos == 'sticky_note':
        return [n['name'] for n in m['sticky_notes']]
    raise KeyError(pos)


def _rename_at(m, pos, pred):
    """Give every name at `pos` that satisfies `pred` a fresh plain name (references follow)."""
    n = [0]

    def fresh(prefix):
        n[0] += 1
        return f'{prefix}_z{n[0]}'
    for ti, t in enumerate(m['tables']):
        if pos == 'table' and pred(t['name']):
            rename_table(m, ti, t['schema'], fresh('t'))
        if pos == 'table_schema' and t['schema'] != 'public' and pred(t['schema']):
            rename_table(m, ti, 'sch_z', t['name'])
        if pos == 'alias' and t['alias'] and pred(t['alias']):
            t['alias'] = fresh('al')
        for ci, c in enumerate(t['columns']):
            if pos == 'column' and pred(c['name']):
                rename_column(m, ti, ci, fresh('c'))
        for i in t['indexes']:
            if pos == 'index_name' and i['name'] and pred(i['name']):
                i['name'] = fresh('ix')
    for ei, e in enumerate(m['enums']):
        if pos == 'enum' and pred(e['name']):
            rename_enum(m, ei, e['schema'], fresh('e'))
        if pos == 'enum_schema' and e['schema'] != 'public' and pred(e['schema']):
            rename_enum(m, ei, 'sch_z', e['name'])
        for it in e['items']:
            if pos == 'enum_item' and pred(it['name']):
                it['name'] = fresh('i')
    for r in m['refs']:
        if pos == 'ref_name' and r['name'] and pred(r['name']):
            r['name'] = fresh('r')
    for g in m['table_groups']:
        if pos == 'group' and pred(g['name']):
            g['name'] = fresh('g')
    if m['project'] and pos == 'project' and pred(m['project']['name']):
        m['project']['name'] = 'p_z'
    for s in m['sticky_notes']:
        if pos == 'sticky_note' and pred(s['name']):
            s['name'] = fresh('sn')


def _odd(name):
    return '.' not in name and not _plain(name)


def _dotted(name):
    return '.' in name


class Probe:
    def __init__(self, pid, key, models, present, neutralise):
        self.id, self.key, self.models, self.present, self.neutralise = pid, key, models, present, neutralise
        self._fails = None

    def fails(self) -> bool:
        if self._fails is None:
            self._fails = False
            for m in self.models:
                try:
                    if run_model(m) is not None:
                        self._fails = True
                        break
                except Exception:
                    pass
        return self._fails


def _build_probes() -> List[Probe]:
    out: List[Probe] = []
    # ---- defaults, one probe per value class
    by_class: Dict[str, List[Any]] = {}
    for d in DEFAULTS:
        by_class.setdefault(_default_class(d), []).append(d)
    for cls, ds in by_class.items():
        def present(m, cls=cls):
            return any(_default_class(c['default']) == cls for c in _columns(m))

        def neutralise(m, cls=cls):
            for c in _columns(m):
                if _default_class(c['default']) == cls:
                    c['default'] = None
        out.append(Probe(f'default/{cls}', DEFAULT_KEYS.get(cls, f'default:{cls}'),
                         [{'tables': [_table(cols=[_col('id', 'varchar', default=d), _col('c2')])]} for d in ds],
                         present, neutralise))
    # ---- multi-line text per site
    for site in ML_SITES:
        def present(m, site=site):
            return any(isinstance(h[k], str) and '\n' in h[k] for h, k in _text_slots(m, site))

        def neutralise(m, site=site):
            for h, k in _text_slots(m, site):
                if isinstance(h[k], str) and '\n' in h[k]:
                    h[k] = 'n'
        out.append(Probe(f'multiline/{site}', f'multiline-reindented:{site}', [_ml_model(site, x) for x in ML_TEXTS],
                         present, neutralise))
    # ---- column types per spelling class
    by_type: Dict[str, List[Any]] = {}
    for ty in TYPES:
        if _type_class(ty):
            by_type.setdefault(_type_class(ty), []).append(ty)
    for cls, tys in by_type.items():
        def present(m, cls=cls):
            return any(_type_class(c['type']) == cls for c in _columns(m))

        def neutralise(m, cls=cls):
            for c in _columns(m):
                if _type_class(c['type']) == cls:
                    c['type'] = 'int'
        out.append(Probe(f'type/{cls}', f'type:{cls}',
                         [{'tables': [_table(cols=[_col('id', ty), _col('c2', ty, not_null=True, note='n')])]} for ty in tys],
                         present, neutralise))
    for cls, es in (('enum', 'public'), ('schema-enum', 's1')):
        def present(m, cls=cls):
            return any(_type_class(c['type']) == cls for c in _columns(m))

        def neutralise(m, cls=cls):
            for c in _columns(m):
                if _type_class(c['type']) == cls:
                    c['type'] = 'int'
        out.append(Probe(f'type/{cls}', f'type:{cls}',
                         [{'enums': [{'schema': es, 'name': 'e1', 'items': [{'name': 'i1'}]}],
                           'tables': [_table(cols=[_col('id', {'enum': [es, 'e1']}), _col('c2', {'enum': [es, 'e1']}, pk=True)])]}],
                         present, neutralise))
    # ---- names that need quoting, per name position (all nine odd names are variants of one probe)
    for pos in NAME_POSITIONS:
        out.append(Probe(f'odd-name/{pos}', f'odd-name:{pos}', [name_model(pos, n) for n in ODD_NAMES],
                         lambda m, pos=pos: any(_odd(x) for x in _names_at(m, pos)),
                         lambda m, pos=pos: _rename_at(m, pos, _odd)))
    # ---- names containing a dot: their own family
    for pos in NAME_POSITIONS:
        model = name_model(pos, DOTTED)
        if pos in ('table', 'table_schema'):
            model['table_groups'] = []
        if pos in ('enum', 'enum_schema'):
            model['tables'][0]['columns'][1]['type'] = 'int'
        out.append(Probe(f'dotted-name/{pos}', f'dotted-name:{pos}', [model],
                         lambda m, pos=pos: any(_dotted(x) for x in _names_at(m, pos)),
                         lambda m, pos=pos: _rename_at(m, pos, _dotted)))
    for pos in ('table', 'table_schema'):
        sch, nm = (DOTTED, 't1') if pos == 'table_schema' else ('public', DOTTED)

        def present(m, pos=pos):
            grouped = {tuple(it) for g in m['table_groups'] for it in g['items']}
            return any(_dotted(t['name'] if pos == 'table' else t['schema']) and (t['schema'], t['name']) in grouped
                       for t in m['tables'])
        out.append(Probe(f'dotted-name/group-item/{pos}', 'dotted-name:group-item',
                         [{'tables': [_table(nm, schema=sch)], 'table_groups': [{'name': 'g1', 'items': [[sch, nm]]}]}],
                         present, lambda m, pos=pos: _rename_at(m, pos, _dotted)))
    for pos in ('enum', 'enum_schema'):
        sch, nm = (DOTTED, 'e1') if pos == 'enum_schema' else ('public', DOTTED)
        variants = [{'enums': [{'schema': sch, 'name': nm, 'items': [{'name': 'i1'}]}],
                     'tables': [_table(cols=[_col('id', {'enum': [sch, nm]}), _col('c2')])]}]
        if pos == 'enum':
            variants.append({'enums': [{'schema': 's1', 'name': nm, 'items': [{'name': 'i1'}]}],
                             'tables': [_table(cols=[_col('id', {'enum': ['s1', nm]}), _col('c2')])]})

        def present(m, pos=pos):
            used = {tuple(c['type']['enum']) for c in _columns(m) if isinstance(c['type'], dict)}
            return any(_dotted(e['name'] if pos == 'enum' else e['schema']) and (e['schema'], e['name']) in used
                       for e in m['enums'])
        out.append(Probe(f'dotted-name/enum-type/{pos}', 'dotted-name:enum-type', variants,
                         present, lambda m, pos=pos: _rename_at(m, pos, _dotted)))
    return out


_PROBES: Optional[List[Probe]] = None


def probes() -> List[Probe]:
    global _PROBES
    if _PROBES is None:
        _PROBES = _build_probes()
    return _PROBES


def _site_of(r) -> str:
    mode, path = r[0], r[1]
    if mode == 'differs':
        return path or 'content'
    return {'reparse-error': 'reparse', 'render-error': 'render', 'not-fixpoint': 'fixpoint'}.get(mode, mode)


def classify(m, r) -> Tuple[str, str]:
    """Key of a failing composite model: decided by the single-feature probes, never by a search."""
    from spec.model import normalize
    m = normalize(m)
    present = [p for p in probes() if p.present(m)]
    failing = [p for p in present if p.fails()]
    if not failing:
        return f'other:{_site_of(r)}', 'no single-feature probe whose feature occurs in the model fails on this tree'
    m2 = copy.deepcopy(m)
    for p in failing:
        p.neutralise(m2)
    try:
        r2 = run_model(m2)
    except Exception:
        r2 = None
    if r2 is not None:
        return (f'other:{_site_of(r2)}',
                f'still fails with the features of the failing probes {[p.id for p in failing]} neutralised: {r2[0]}: {r2[2]}')
    return failing[0].key, f'explained by failing probes {[p.id for p in failing]}'


# =========================================================================== composite models

def composite_models() -> Iterator[Tuple[str, Any]]:
    """Fixed enumeration of feature combinations (no single-feature probes here)."""
    yield 'skeleton', name_model('table', 't1')
    for n in ODD_NAMES:
        yield 'name:table+schema', {'tables': [_table(n, schema='s1'), _table('t2')],
                                    'refs': [_ref('>', ('public', 't2'), ('id',), ('s1', n), ('id',)),
                                             _ref('<', ('s1', n), ('c2',), ('public', 't2'), ('c2',), inline=True)],
                                    'table_groups': [{'name': 'g1', 'items': [['s1', n]]}]}
        yield 'name:enum+schema', {'enums': [{'schema': 's1', 'name': n, 'items': [{'name': 'i1'}]}],
                                   'tables': [_table(cols=[_col('id', {'enum': ['s1', n]}), _col('c2')])]}
    for d in DEFAULTS:
        yield 'default+settings', {'tables': [_table(cols=[_col('id', 'varchar', default=d, not_null=True, unique=True, note='n'),
                                                           _col('c2')])]}
    # ---- column flags
    for bits in range(16):
        fl = {k: bool(bits >> i & 1) for i, k in enumerate(('unique', 'not_null', 'pk', 'autoinc'))}
        yield 'flags', {'tables': [_table(cols=[_col('id', **fl), _col('c2')])]}
    yield 'flags:composite-pk', {'tables': [_table(cols=[_col('id', pk=True), _col('c2', pk=True)])]}
    # ---- indexes
    subj = {'col': [{'col': 'id'}], 'comp': [{'col': 'id'}, {'col': 'c2'}], 'expr': [{'expr': 'id*2'}],
            'mixed': [{'col': 'id'}, {'expr': 'lower(c2)'}], 'exprs': [{'expr': 'a'}, {'expr': 'b'}]}
    for sk, ss in subj.items():
        yield 'index', {'tables': [_table(indexes=[{'subjects': ss}])]}
        yield 'index', {'tables': [_table(indexes=[{'subjects': ss, 'name': 'ix', 'unique': True, 'type': 'hash', 'note': 'n'}])]}
        yield 'index', {'tables': [_table(indexes=[{'subjects': ss, 'pk': True}])]}
    for ty in INDEX_TYPES:
        yield 'index:type', {'tables': [_table(indexes=[{'subjects': [{'col': 'id'}], 'type': ty}])]}
    for kw in ({'name': 'ix'}, {'unique': True}, {'note': 'n'}, {'pk': True, 'name': 'ix'}):
        yield 'index:setting', {'tables': [_table(indexes=[{'subjects': [{'col': 'id'}], **kw}, {'subjects': [{'col': 'c2'}]}])]}
    # ---- references
    two = [_table('t1', [_col('id'), _col('c2'), _col('c3')]), _table('t2', [_col('id'), _col('c2'), _col('c3')])]
    for ty in ('>', '<', '-', '<>'):
        yield 'ref', {'tables': two, 'refs': [_ref(ty)]}
        yield 'ref:composite', {'tables': two, 'refs': [_ref(ty, c1=('id', 'c2'), c2=('c2', 'c3'))]}
        yield 'ref:named', {'tables': two, 'refs': [_ref(ty, name='r1')]}
        yield 'ref:self', {'tables': two, 'refs': [_ref(ty, t2=('public', 't1'), c2=('c2',))]}
        if ty != '<>':
            yield 'ref:inline', {'tables': two, 'refs': [_ref(ty, inline=True)]}
            yield 'ref:inline-backward', {'tables': two, 'refs': [_ref(ty, ('public', 't2'), ('id',), ('public', 't1'), ('id',), inline=True)]}
            yield 'ref:inline-self', {'tables': two, 'refs': [_ref(ty, t2=('public', 't1'), c2=('c2',), inline=True)]}
            yield 'ref:inline+settings', {'tables': [_table('t1', [_col('id', pk=True, not_null=True, default={'kind': 'int', 'value': 1},
                                                                        note='n'), _col('c2')]), two[1]],
                                          'refs': [_ref(ty, inline=True)]}
        for act in REF_ACTIONS:
            yield 'ref:actions', {'tables': two, 'refs': [_ref(ty, on_update=act, on_delete=act)]}
    yield 'ref:two-inline-one-column', {'tables': two + [_table('t3')],
                                        'refs': [_ref('>', inline=True), _ref('>', t2=('public', 't3'), inline=True)]}
    yield 'ref:mixed', {'tables': two, 'refs': [_ref('>', inline=True), _ref('<', c1=('c2',), c2=('c2',)),
                                                _ref('<>', c1=('c3',), c2=('c3',), name='mm')]}
    sch = [_table('t1', schema='s1'), _table('t1', schema='s2'), _table('t1')]
    yield 'ref:schemas', {'tables': sch, 'refs': [_ref('>', ('s1', 't1'), ('id',), ('s2', 't1'), ('id',)),
                                                  _ref('<', ('s2', 't1'), ('c2',), ('public', 't1'), ('id',), inline=True),
                                                  _ref('-', ('public', 't1'), ('c2',), ('s1', 't1'), ('c2',), inline=True)],
                          'table_groups': [{'name': 'g', 'items': [['s1', 't1'], ['public', 't1'], ['s2', 't1']]}]}
    yield 'ref:aliases', {'tables': [_table('t1', alias='a1'), _table('t2', alias='a2')],
                          'refs': [_ref('>'), _ref('<', c1=('c2',), c2=('c2',), inline=True)]}
    # ---- table level
    for kw in ({'alias': 'al'}, {'header_color': '#fff'}, {'header_color': '#aB12cd'}, {'note': 'n'},
               {'schema': 's1'}, {'schema': 's1', 'alias': 'al', 'header_color': '#000', 'note': 'n'}):
        yield 'table', {'tables': [_table(**kw), _table('t2')]}
    yield 'table:properties', {'allow_properties': True,
                               'tables': [_table(properties=[['k', 'v'], ['k2', 'v 2']], note='n', indexes=[{'subjects': [{'col': 'id'}]}]),
                                          _table('t2')]}
    yield 'column:properties', {'allow_properties': True,
                                'tables': [_table(cols=[_col('id', properties=[['k', 'v']], pk=True), _col('c2', properties=[['a', 'b'], ['c', 'd']])])]}
    yield 'properties:flag-only', {'allow_properties': True, 'tables': [_table()]}
    yield 'column:note', {'tables': [_table(cols=[_col('id', note='n'), _col('c2')])]}
    # ---- enums
    yield 'enum', {'enums': [{'name': 'e1', 'items': [{'name': 'i1', 'note': 'n'}, {'name': 'i2'}]},
                             {'schema': 's1', 'name': 'e1', 'items': [{'name': 'i1'}]}], 'tables': [_table()]}
    yield 'enum:only', {'enums': [{'name': 'e1', 'items': [{'name': 'i1'}]}]}
    # ---- groups, project, sticky notes
    for kw in ({}, {'color': '#fff'}, {'note': 'n'}, {'color': '#123456', 'note': 'n'}):
        yield 'group', {'tables': [_table(), _table('t2')], 'table_groups': [{'name': 'g1', 'items': [['public', 't1'], ['public', 't2']], **kw}]}
    yield 'group:empty', {'tables': [_table()], 'table_groups': [{'name': 'g1', 'items': []}]}
    yield 'group:two', {'tables': [_table(), _table('t2')], 'table_groups': [{'name': 'g1', 'items': [['public', 't2']]},
                                                                           {'name': 'g2', 'items': [['public', 't1']]}]}
    for p in ({'name': 'p1'}, {'name': 'p1', 'items': [['database_type', 'PostgreSQL'], ['k', 'v']]}, {'name': 'p1', 'note': 'n'}):
        yield 'project', {'project': p, 'tables': [_table()]}
    yield 'project:only', {'project': {'name': 'p1', 'items': [['k', 'v']]}}
    yield 'sticky', {'sticky_notes': [{'name': 'sn1', 'text': 'x'}, {'name': 'sn2', 'text': 'y'}], 'tables': [_table()]}
    yield 'sticky:only', {'sticky_notes': [{'name': 'sn1', 'text': 'x'}]}


def random_model(rnd: random.Random):
    """A model combining the features of the value domain; exotic values are rare so that most models are
    expected to round-trip."""
    used = set()

    def name(prefix, p_odd=0.06):
        for _ in range(20):
            n = rnd.choice(NAME_POOL) if rnd.random() < p_odd else f'{prefix}{rnd.randrange(1, 9)}'
            if n not in used:
                used.add(n)
                return n
        n = f'{prefix}{len(used) + 10}'
        used.add(n)
        return n

    def note(p=0.25):
        r = rnd.random()
        if r > p:
            return None
        if rnd.random() < 0.08:
            return rnd.choice([ML, 'a\nb'])
        return rnd.choice(['n', 'a note', "it's", 'x "y"', 'a # b', '{x} [y]'])

    m: Dict[str, Any] = {'allow_properties': rnd.random() < 0.25}
    enums = []
    for _ in range(rnd.choice((0, 0, 1, 2))):
        used_items = set()
        items = []
        for _ in range(rnd.randint(1, 3)):
            n = rnd.choice(NAME_POOL) if rnd.random() < 0.05 else f'i{len(used_items) + 1}'
            if n in used_items:
                continue
            used_items.add(n)
            items.append({'name': n, 'note': note(0.15)})
        enums.append({'schema': rnd.choice(('public', 'public', 's1')), 'name': name('e'), 'items': items})
    m['enums'] = enums
    tables = []
    for _ in range(rnd.randint(1, 3)):
        cols, cn = [], set()
        for _ in range(rnd.randint(1, 4)):
            n = rnd.choice(NAME_POOL) if rnd.random() < 0.05 else f'c{len(cn) + 1}'
            if n in cn:
                continue
            cn.add(n)
            r = rnd.random()
            if r < 0.6:
                ty = rnd.choice(('int', 'varchar', 'text', 'bool'))
            elif r < 0.8 and enums:
                e = rnd.choice(enums)
                ty = {'enum': [e['schema'], e['name']]}
            elif r < 0.96:
                ty = rnd.choice(('varchar(255)', 'decimal(10, 2)', 'int[]', 'x.y', '_t', 'VARCHAR'))
            else:
                ty = rnd.choice(TYPES)
            c = _col(n, ty)
            for k, p in (('unique', .15), ('not_null', .2), ('pk', .15), ('autoinc', .1)):
                if rnd.random() < p:
                    c[k] = True
            if rnd.random() < 0.25:
                plain = [d for d in DEFAULTS if _default_class(d) in ('int', 'float', 'bool:True', 'str', 'expr', 'str:NULL', 'str:number')]
                c['default'] = copy.deepcopy(rnd.choice(plain if rnd.random() < 0.85 else DEFAULTS))
            c['note'] = note(0.15)
            if m['allow_properties'] and rnd.random() < 0.2:
                c['properties'] = [['k', rnd.choice(['v', 'a b', "q'"])]]
            cols.append(c)
        t = _table(name('t'), cols, schema=rnd.choice(('public', 'public', 'public', 's1', 's2')))
        if rnd.random() < 0.2:
            t['alias'] = name('al')
        if rnd.random() < 0.15:
            t['header_color'] = rnd.choice(('#fff', '#12ab9F'))
        t['note'] = note(0.2)
        if m['allow_properties'] and rnd.random() < 0.2:
            t['properties'] = [['tk', 'tv']]
        idx = []
        for _ in range(rnd.choice((0, 0, 1, 2))):
            ss = []
            for _ in range(rnd.choice((1, 1, 2))):
                if rnd.random() < 0.75:
                    s = {'col': rnd.choice(cols)['name']}
                else:
                    s = {'expr': rnd.choice(('id*2', 'lower(x)', 'a, b'))}
                if s not in ss:
                    ss.append(s)
            i = {'subjects': ss}
            if rnd.random() < 0.3:
                i['name'] = rnd.choice(NAME_POOL) if rnd.random() < 0.1 else 'ix'
            if rnd.random() < 0.2:
                i['unique'] = True
            if rnd.random() < 0.2:
                i['type'] = rnd.choice(INDEX_TYPES)
            if rnd.random() < 0.1:
                i['pk'] = True
            i['note'] = note(0.1)
            idx.append(i)
        t['indexes'] = idx
        tables.append(t)
    # table full names must be unique (names are unique already)
    m['tables'] = tables
    refs, seen = [], set()
    for _ in range(rnd.choice((0, 1, 1, 2, 3))):
        a, b = rnd.choice(tables), rnd.choice(tables)
        k = 1 if rnd.random() < 0.75 else 2
        if len(a['columns']) < k or len(b['columns']) < k:
            k = 1
        c1 = [c['name'] for c in rnd.sample(a['columns'], k)]
        c2 = [c['name'] for c in rnd.sample(b['columns'], k)]
        ty = rnd.choice(('>', '<', '-', '<>'))
        sig = (ty, a['name'], tuple(c1), b['name'], tuple(c2))
        if sig in seen or (a is b and c1 == c2):
            continue
        seen.add(sig)
        r = _ref(ty, (a['schema'], a['name']), c1, (b['schema'], b['name']), c2)
        if k == 1 and ty != '<>' and rnd.random() < 0.4:
            r['inline'] = True
        else:
            if rnd.random() < 0.3:
                r['name'] = rnd.choice(NAME_POOL) if rnd.random() < 0.1 else f'r{len(refs) + 1}'
            if rnd.random() < 0.25:
                r['on_update'] = rnd.choice(REF_ACTIONS)
            if rnd.random() < 0.25:
                r['on_delete'] = rnd.choice(REF_ACTIONS)
        refs.append(r)
    m['refs'] = refs
    groups, pool = [], list(tables)
    rnd.shuffle(pool)
    for _ in range(rnd.choice((0, 0, 1, 2))):
        take = [pool.pop() for _ in range(min(len(pool), rnd.randint(0, 2)))]
        g = {'name': name('g'), 'items': [[t['schema'], t['name']] for t in take]}
        if rnd.random() < 0.3:
            g['color'] = '#abc'
        g['note'] = note(0.2)
        groups.append(g)
    m['table_groups'] = groups
    if rnd.random() < 0.3:
        m['project'] = {'name': name('p'), 'items': [['database_type', 'PostgreSQL']] if rnd.random() < 0.6 else [],
                        'note': note(0.4)}
    m['sticky_notes'] = [{'name': name('sn', 0.03), 'text': rnd.choice(('x', 'two words', ML))}
                         for _ in range(rnd.choice((0, 0, 0, 1, 2)))]
    return m


# =========================================================================== the obligation


# =========================================================================== the obligation

class RoundTrip(BObl):
    id = 'C02.B.roundtrip'
    property = 'C02'
    rule = ('recipe kinds: {probe, v} = variant v of a single-feature probe on a plain skeleton (23 default values by '
            'value class; multi-line text at 10 sites; 13 type spellings by class and enum types; 9 names that need '
            'quoting x 12 name positions on a skeleton that uses the name in references, indexes, groups and types; '
            'the dotted name a.b at the 12 positions, as a group item and as an enum type); {enum: k} = k-th model of a '
            'fixed enumeration of feature combinations (flags, index shapes/settings, 4 reference kinds x '
            'single/composite/named/self/inline/actions, schemas, aliases, table/group/project/sticky settings, '
            'properties, defaults next to other settings); {file} = one of the repository\'s DBML documents, parsed, '
            'comments cleared; {rand: i} = seeded random model combining these (no dotted names).  Contract: '
            'db2 = PyDBML(db.dbml): content of db2 == content of db (view() without comments, reference order where '
            'DBML can express it) and db2.dbml == db.dbml.  Key: a failing probe reports its fixed label; any other '
            'failing model reports the label of the first failing probe whose feature it contains, or other:<site> '
            'if no such probe exists or the model still fails with those features neutralised')
    bound = ('probes and 151 combinations: complete fixed enumeration; 33 parsed documents; random models: 600 quick, '
             '30 000 thorough (1-3 tables, 1-4 columns, 0-2 enums/indexes/groups/sticky notes, 0-3 references)')
    chunk = 8
    budget = {'quick': 27.0, 'thorough': 560.0}

    def cases(self, tier, seed):
        for p in probes():
            for v in range(len(p.models)):
                yield {'probe': p.id, 'v': v}
        for k, _ in enumerate(composite_models()):
            yield {'enum': k}
        for name, _text, _props in parseable_seed_documents():
            yield {'file': name}
        n = 600 if tier == 'quick' else 30000
        for i in range(n):
            yield {'rand': i, 'seed': seed}

    def nontrivial(self, recipe):
        return True

    @staticmethod
    def _shown(m) -> str:
        return repr({k: v for k, v in m.items() if v not in (None, [], False)})[:380]

    def check(self, recipe):
        from pydbml import PyDBML
        from spec.model import view, normalize
        if 'probe' in recipe:
            p = next(x for x in probes() if x.id == recipe['probe'])
            m = p.models[recipe['v']]
            r = run_model(m)
            if r is None:
                return None
            return p.key, f'probe {p.id}[{recipe["v"]}]: {r[0]}: {r[2]} | model: {self._shown(m)}'
        if 'file' in recipe:
            docs = {n: (t, pr) for n, t, pr in parseable_seed_documents()}
            text, props = docs[recipe['file']]
            db = PyDBML(text, allow_properties=True) if props else PyDBML(text)
            _clear_comments(db)
            r = roundtrip(db, props)
            if r is None:
                return None
            m = normalize(view(db))
            try:
                r_api = run_model(m)   # the same content built through the public classes
            except Exception:
                r_api = None
            if r_api is None or r_api[0] != r[0]:
                return f'other:{_site_of(r)}', f'parsed {recipe["file"]} (not reproduced through the API): {r[0]}: {r[2]}'
            key, why = classify(m, r_api)
            return key, f'parsed {recipe["file"]}: {r[0]}: {r[2]} | {why}'
        if 'enum' in recipe:
            label, m = next(x for k, x in enumerate(composite_models()) if k == recipe['enum'])
        else:
            label, m = 'random', random_model(random.Random(f"c02/{recipe['seed']}/{recipe['rand']}"))
        r = run_model(m)
        if r is None:
            return None
        key, why = classify(m, r)
        return key, f'model {label}: {r[0]}: {r[2]} | {why} | model: {self._shown(m)}'


OBLIGATIONS = [RoundTrip()]
