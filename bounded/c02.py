"""C02 — DBML round trip (API-built and parsed databases).  Bounded run-time contract on the real code.

C02.B.roundtrip   db -> .dbml -> PyDBML -> same content (view), and .dbml of the re-parsed database is
                  byte-identical (fixpoint); db ranges over (a) the repository's own documents, parsed,
                  (b) an enumeration of models over the DBML-expressible value domain, one feature at a time on
                  a rich skeleton, (c) seeded random models combining the features.

A failing model is shrunk on the abstract model (delete elements, reset optional fields, plain names, plain
types) while it keeps failing in the same way; the key is derived from the features left in the minimal
model, so it names site and cause and never contains the input.
Comments are not part of the content C02 promises (C14 owns them) and are ignored in the comparison.
"""
from __future__ import annotations

import copy
import random
import re
from typing import Any, Dict, Iterator, List, Optional, Tuple

from lib.bounded import BObl
from bounded._text_models import exc_line, innermost_pydbml_function, parseable_seed_documents, seed_documents

NAME_POOL = ['a b', 'Table', 'note', 'indexes', 'ref', '1x', 'é', 'a.b', 'a-b', '{x}']
NAME_POSITIONS = ['table', 'table_schema', 'alias', 'column', 'enum', 'enum_schema', 'enum_item', 'index_name',
                  'ref_name', 'group', 'project', 'sticky_note']
KEYWORDS = {'table', 'ref', 'enum', 'note', 'indexes', 'project', 'tablegroup', 'as', 'pk', 'unique', 'null',
            'not', 'increment', 'default', 'true', 'false', 'primary', 'key', 'name', 'type'}
INDEX_TYPES = ['brin', 'btree', 'gin', 'gist', 'hash', 'spgist']
REF_ACTIONS = ['no action', 'restrict', 'cascade', 'set null', 'set default']


# =========================================================================== comparison

def _content(db) -> Dict[str, Any]:
    """view(db), normalised, without comments (C02 lists names, types, flags, defaults, notes, reference
    endpoints/kinds/inline-ness, groups, sticky notes, project; comments belong to C14)."""
    from spec.model import view, normalize
    m = normalize(view(db))
    if m['project']:
        m['project']['comment'] = None
    for e in m['enums']:
        e['comment'] = None
        for i in e['items']:
            i['comment'] = None
    for t in m['tables']:
        t['comment'] = None
        for c in t['columns']:
            c['comment'] = None
        for i in t['indexes']:
            i['comment'] = None
    for r in m['refs']:
        r['comment'] = None
    for g in m['table_groups']:
        g['comment'] = None
    # DBML text fixes the position of an inline reference (the settings of its first column) and puts all
    # stand-alone references after the tables, so the relative order of references is expressible only among
    # the stand-alone ones, and among the inline ones of the same column.
    tpos = {(t['schema'], t['name']): (k, {c['name']: j for j, c in enumerate(t['columns'])})
            for k, t in enumerate(m['tables'])}

    def where(r):
        k, cols = tpos.get(tuple(r['t1'] or ()), (len(tpos), {}))
        return (k, cols.get(r['c1'][0] if r['c1'] else None, 1 << 30))
    refs = m.pop('refs')
    m['refs'] = [r for r in refs if not r['inline']]
    m['inline_refs'] = sorted((r for r in refs if r['inline']), key=where)
    return m


def _generic(path: str) -> str:
    p = re.sub(r'\[\d+\]', '', path).strip('.')
    return p.split(':')[0]


def roundtrip(db, allow_properties: bool) -> Optional[Tuple[str, str, str, str]]:
    """The contract.  None or (mode, generic path, message, rendered text)."""
    from pydbml import PyDBML
    from spec.model import diff
    before = _content(db)
    try:
        text = db.dbml
    except Exception as e:
        return ('render-error', type(e).__name__, f'Database.dbml raised {exc_line(e)} in {innermost_pydbml_function(e)}', '')
    try:
        db2 = PyDBML(text, allow_properties=True) if allow_properties else PyDBML(text)
    except Exception as e:
        where = ''
        ln = getattr(e, 'lineno', None)
        lines = text.split('\n')
        if isinstance(ln, int) and 1 <= ln <= len(lines):
            where = f'; rendered line {ln}: {lines[ln - 1].strip()[:90]!r}'
        return ('reparse-error', '', f'rendered DBML does not parse back: {exc_line(e)[:140]}{where}', text)
    after = _content(db2)
    if after != before:
        d = diff(before, after)
        return ('differs', _generic(d[0]) if d else '', 'content after the round trip differs (left: before, right: after): '
                + '; '.join(d[:3]), text)
    try:
        text2 = db2.dbml
    except Exception as e:
        return ('not-fixpoint', 'render', f'.dbml of the re-parsed database raised {exc_line(e)}', text)
    if text2 != text:
        a, b = text.split('\n'), text2.split('\n')
        k = next((i for i, (x, y) in enumerate(zip(a, b)) if x != y), min(len(a), len(b)))
        return ('not-fixpoint', '', 'rendering the re-parsed database gives different text; first differing line '
                f'{k + 1}: {(a[k] if k < len(a) else "<end>")!r} vs {(b[k] if k < len(b) else "<end>")!r}', text)
    return None


def _clear_comments(db) -> None:
    """Comments are C14's subject (a comment above a column is not kept, by design); the parsed database is
    taken without them so that the byte-identity clause is evaluated on what C02 promises."""
    from bounded._text_models import elements_of
    for _, el in elements_of(db):
        if getattr(el, 'comment', None) is not None:
            el.comment = None


def run_model(m) -> Optional[Tuple[str, str, str, str]]:
    from spec.model import build_api
    db = build_api(m)
    return roundtrip(db, bool(m.get('allow_properties')))


# =========================================================================== shrinking on the abstract model

def _plain(name: str) -> bool:
    return bool(re.fullmatch(r'[A-Za-z_][A-Za-z0-9_]*', name)) and name.lower() not in KEYWORDS


def _fresh(prefix: str, taken) -> str:
    k = 1
    while f'{prefix}{k}' in taken:
        k += 1
    return f'{prefix}{k}'


def rename_table(m, ti, schema, name):
    t = m['tables'][ti]
    old = [t['schema'], t['name']]
    t['schema'], t['name'] = schema, name
    for r in m['refs']:
        for k in ('t1', 't2'):
            if r[k] == old:
                r[k] = [schema, name]
    for g in m['table_groups']:
        g['items'] = [[schema, name] if it == old else it for it in g['items']]


def rename_column(m, ti, ci, name):
    t = m['tables'][ti]
    old = t['columns'][ci]['name']
    t['columns'][ci]['name'] = name
    key = [t['schema'], t['name']]
    for r in m['refs']:
        if r['t1'] == key:
            r['c1'] = [name if c == old else c for c in r['c1']]
        if r['t2'] == key:
            r['c2'] = [name if c == old else c for c in r['c2']]
    for i in t['indexes']:
        for s in i['subjects']:
            if s.get('col') == old:
                s['col'] = name


def rename_enum(m, ei, schema, name):
    e = m['enums'][ei]
    old = [e['schema'], e['name']]
    e['schema'], e['name'] = schema, name
    for t in m['tables']:
        for c in t['columns']:
            if isinstance(c['type'], dict) and c['type']['enum'] == old:
                c['type'] = {'enum': [schema, name]}


def _delete_table(m, ti):
    t = m['tables'].pop(ti)
    key = [t['schema'], t['name']]
    m['refs'] = [r for r in m['refs'] if r['t1'] != key and r['t2'] != key]
    for g in m['table_groups']:
        g['items'] = [it for it in g['items'] if it != key]


def _delete_column(m, ti, ci):
    t = m['tables'][ti]
    c = t['columns'].pop(ci)
    key = [t['schema'], t['name']]
    m['refs'] = [r for r in m['refs'] if not ((r['t1'] == key and c['name'] in r['c1']) or
                                              (r['t2'] == key and c['name'] in r['c2']))]
    t['indexes'] = [i for i in t['indexes'] if not any(s.get('col') == c['name'] for s in i['subjects'])]


def _delete_enum(m, ei):
    e = m['enums'].pop(ei)
    key = [e['schema'], e['name']]
    for t in m['tables']:
        for c in t['columns']:
            if isinstance(c['type'], dict) and c['type']['enum'] == key:
                c['type'] = 'int'


def candidates(m) -> Iterator[Any]:
    """Smaller / plainer variants of a normalised model, big steps first.  Each is a thunk mutating a copy."""
    from spec import model as M

    def mk(f):
        def go():
            c = copy.deepcopy(m)
            f(c)
            return c
        return go

    # ---- whole elements
    for ti in range(len(m['tables'])):
        if len(m['tables']) > 1:
            yield mk(lambda c, ti=ti: _delete_table(c, ti))
    if m['project']:
        yield mk(lambda c: c.__setitem__('project', None))
    for k in ('sticky_notes', 'table_groups', 'refs'):
        for i in range(len(m[k])):
            yield mk(lambda c, k=k, i=i: c[k].pop(i))
    for ei in range(len(m['enums'])):
        yield mk(lambda c, ei=ei: _delete_enum(c, ei))
    for ti, t in enumerate(m['tables']):
        for ii in range(len(t['indexes'])):
            yield mk(lambda c, ti=ti, ii=ii: c['tables'][ti]['indexes'].pop(ii))
        for ci in range(len(t['columns'])):
            if len(t['columns']) > 1:
                yield mk(lambda c, ti=ti, ci=ci: _delete_column(c, ti, ci))
    for ei, e in enumerate(m['enums']):
        for ii in range(len(e['items'])):
            if len(e['items']) > 1:
                yield mk(lambda c, ei=ei, ii=ii: c['enums'][ei]['items'].pop(ii))
    for gi, g in enumerate(m['table_groups']):
        for ii in range(len(g['items'])):
            yield mk(lambda c, gi=gi, ii=ii: c['table_groups'][gi]['items'].pop(ii))
    if m['project']:
        for ii in range(len(m['project']['items'])):
            yield mk(lambda c, ii=ii: c['project']['items'].pop(ii))
    # ---- optional fields back to their defaults
    for ti, t in enumerate(m['tables']):
        for k, dv in M._TABLE_DEF.items():
            if k in ('schema', 'columns', 'indexes'):
                continue
            if t[k] != dv:
                yield mk(lambda c, ti=ti, k=k, dv=dv: c['tables'][ti].__setitem__(k, copy.deepcopy(dv)))
        for ci, col in enumerate(t['columns']):
            for k, dv in M._COL_DEF.items():
                if col[k] != dv:
                    yield mk(lambda c, ti=ti, ci=ci, k=k, dv=dv: c['tables'][ti]['columns'][ci].__setitem__(k, copy.deepcopy(dv)))
            if col['type'] != 'int':
                yield mk(lambda c, ti=ti, ci=ci: c['tables'][ti]['columns'][ci].__setitem__('type', 'int'))
        for ii, ix in enumerate(t['indexes']):
            for k, dv in M._IDX_DEF.items():
                if ix[k] != dv:
                    yield mk(lambda c, ti=ti, ii=ii, k=k, dv=dv: c['tables'][ti]['indexes'][ii].__setitem__(k, dv))
            if len(ix['subjects']) > 1:
                for si in range(len(ix['subjects'])):
                    yield mk(lambda c, ti=ti, ii=ii, si=si: c['tables'][ti]['indexes'][ii]['subjects'].pop(si))
            for si, s in enumerate(ix['subjects']):
                if 'col' not in s:
                    yield mk(lambda c, ti=ti, ii=ii, si=si: c['tables'][ti]['indexes'][ii]['subjects'].__setitem__(
                        si, {'col': c['tables'][ti]['columns'][0]['name']}))
    for ei, e in enumerate(m['enums']):
        for ii, it in enumerate(e['items']):
            if it['note'] is not None:
                yield mk(lambda c, ei=ei, ii=ii: c['enums'][ei]['items'][ii].__setitem__('note', None))
    for ri, r in enumerate(m['refs']):
        for k, dv in M._REF_DEF.items():
            if r[k] != dv:
                yield mk(lambda c, ri=ri, k=k, dv=dv: c['refs'][ri].__setitem__(k, dv))
        if r['type'] != '>':
            yield mk(lambda c, ri=ri: c['refs'][ri].__setitem__('type', '>'))
        if len(r['c1']) > 1:
            def single(c, ri=ri):
                c['refs'][ri]['c1'] = c['refs'][ri]['c1'][:1]
                c['refs'][ri]['c2'] = c['refs'][ri]['c2'][:1]
            yield mk(single)
    for gi, g in enumerate(m['table_groups']):
        for k in ('note', 'color'):
            if g[k] is not None:
                yield mk(lambda c, gi=gi, k=k: c['table_groups'][gi].__setitem__(k, None))
    if m['project'] and m['project']['note'] is not None:
        yield mk(lambda c: c['project'].__setitem__('note', None))
    if m['allow_properties'] and not any(t['properties'] or any(c['properties'] for c in t['columns']) for t in m['tables']):
        yield mk(lambda c: c.__setitem__('allow_properties', False))
    # ---- plain values: multi-line text -> one line, names -> plain fresh names
    def notes(c):
        out = []
        for t in c['tables']:
            out.append(t)
            out.extend(t['columns'])
            out.extend(t['indexes'])
        for e in c['enums']:
            out.extend(e['items'])
        out.extend(c['table_groups'])
        if c['project']:
            out.append(c['project'])
        return out
    for k, holder in enumerate(notes(m)):
        if holder.get('note') and holder['note'] != 'n':
            yield mk(lambda c, k=k: notes(c)[k].__setitem__('note', 'n'))
    for si, s in enumerate(m['sticky_notes']):
        if s['text'] != 'n':
            yield mk(lambda c, si=si: c['sticky_notes'][si].__setitem__('text', 'n'))
    tnames = {t['name'] for t in m['tables']} | {t['alias'] for t in m['tables'] if t['alias']}
    for ti, t in enumerate(m['tables']):
        if t['schema'] != 'public':
            if not any(o is not t and o['schema'] == 'public' and o['name'] == t['name'] for o in m['tables']):
                yield mk(lambda c, ti=ti: rename_table(c, ti, 'public', c['tables'][ti]['name']))
            yield mk(lambda c, ti=ti: rename_table(c, ti, 'public', _fresh('t', tnames)))
        if not _plain(t['name']):
            yield mk(lambda c, ti=ti: rename_table(c, ti, c['tables'][ti]['schema'], _fresh('t', tnames)))
        if t['schema'] != 'public' and not _plain(t['schema']):
            yield mk(lambda c, ti=ti: rename_table(c, ti, 'sch', c['tables'][ti]['name']))
        if t['alias'] and not _plain(t['alias']):
            yield mk(lambda c, ti=ti: c['tables'][ti].__setitem__('alias', _fresh('al', tnames)))
        cnames = {c['name'] for c in t['columns']}
        for ci, col in enumerate(t['columns']):
            if not _plain(col['name']):
                yield mk(lambda c, ti=ti, ci=ci, cn=cnames: rename_column(c, ti, ci, _fresh('c', cn)))
        for ii, ix in enumerate(t['indexes']):
            if ix['name'] and not _plain(ix['name']):
                yield mk(lambda c, ti=ti, ii=ii: c['tables'][ti]['indexes'][ii].__setitem__('name', 'ixn'))
    enames = {e['name'] for e in m['enums']}
    for ei, e in enumerate(m['enums']):
        if e['schema'] != 'public':
            if not any(o is not e and o['schema'] == 'public' and o['name'] == e['name'] for o in m['enums']):
                yield mk(lambda c, ei=ei: rename_enum(c, ei, 'public', c['enums'][ei]['name']))
            yield mk(lambda c, ei=ei: rename_enum(c, ei, 'public', _fresh('e', enames)))
        if not _plain(e['name']):
            yield mk(lambda c, ei=ei: rename_enum(c, ei, c['enums'][ei]['schema'], _fresh('e', enames)))
        if e['schema'] != 'public' and not _plain(e['schema']):
            yield mk(lambda c, ei=ei: rename_enum(c, ei, 'sch', c['enums'][ei]['name']))
        inames = {i['name'] for i in e['items']}
        for ii, it in enumerate(e['items']):
            if not _plain(it['name']):
                yield mk(lambda c, ei=ei, ii=ii, inames=inames: c['enums'][ei]['items'][ii].__setitem__('name', _fresh('i', inames)))
    for ri, r in enumerate(m['refs']):
        if r['name'] and not _plain(r['name']):
            yield mk(lambda c, ri=ri: c['refs'][ri].__setitem__('name', f'rn{ri}'))
    for gi, g in enumerate(m['table_groups']):
        if not _plain(g['name']):
            yield mk(lambda c, gi=gi: c['table_groups'][gi].__setitem__('name', f'gn{gi}'))
    if m['project'] and not _plain(m['project']['name']):
        yield mk(lambda c: c['project'].__setitem__('name', 'pn'))
    for si, s in enumerate(m['sticky_notes']):
        if not _plain(s['name']):
            yield mk(lambda c, si=si: c['sticky_notes'][si].__setitem__('name', f'sn{si}'))


def shrink(m, sig, max_trials: int = 400):
    """Greedy fixpoint of `candidates` keeping the failure signature (mode, generic path)."""
    from spec.model import normalize
    cur = normalize(m)
    trials = 0
    progress = True
    while progress and trials < max_trials:
        progress = False
        for thunk in candidates(cur):
            if trials >= max_trials:
                break
            try:
                cand = thunk()
                if cand == cur:
                    continue
                trials += 1
                r = run_model(cand)
            except Exception:
                continue  # candidate is not a well-formed model (e.g. reference lost its column)
            if r is not None and (r[0], r[1]) == sig:
                cur = cand
                progress = True
                break
    return cur


# =========================================================================== features and keys

def _name_class(name: str) -> Optional[str]:
    if _plain(name):
        return None
    if name.lower() in KEYWORDS:
        return 'keyword'
    if ' ' in name:
        return 'space'
    if '.' in name:
        return 'dot'
    if '{' in name or '}' in name:
        return 'brace'
    if '-' in name:
        return 'dash'
    if any(ord(ch) > 127 for ch in name):
        return 'non-ascii'
    if name[:1].isdigit():
        return 'digit-start'
    return 'other'


def _type_class(ty) -> Optional[str]:
    if isinstance(ty, dict):
        return 'enum' if ty['enum'][0] == 'public' else 'schema-enum'
    if ty == 'int' or re.fullmatch(r'\w+', ty):
        return None
    if re.fullmatch(r'\w+\(.*\)', ty, flags=re.S):
        return 'args'
    if re.fullmatch(r'\w+\[\]', ty):
        return 'array'
    if re.fullmatch(r'\w+\.\w+', ty):
        return 'dotted'
    if ' ' in ty:
        return 'multiword'
    return 'other'


def _default_class(d) -> Optional[str]:
    if d is None:
        return None
    k, v = d['kind'], d['value']
    if k == 'int':
        return 'int:0' if v == 0 else 'int'
    if k == 'float':
        return 'float:0.0' if float(v) == 0 else 'float'
    if k == 'bool':
        return f'bool:{v}'
    if k == 'expr':
        return 'expr'
    if k == 'str':
        if v == '':
            return 'str:empty'
        if v.lower() in ('true', 'false'):
            return 'str:bool-word'
        if v.lower() == 'null':
            return 'str:NULL' if v == 'NULL' else 'str:null-word'
        if re.fullmatch(r'\d+(\.\d+)?', v):
            return 'str:number'
        return 'str'
    return k


def features(m) -> List[str]:
    f: List[str] = []

    def add(x):
        if x not in f:
            f.append(x)

    def note(site, holder, key='note'):
        t = holder.get(key)
        if t:
            add(f'{site}-note' + ('=multiline' if '\n' in t else ''))

    if m['allow_properties']:
        pass
    if m['project']:
        p = m['project']
        add('project')
        if _name_class(p['name']):
            add(f'project-name={_name_class(p["name"])}')
        if p['items']:
            add('project-field' + ('=multiline' if any('\n' in v for _, v in p['items']) else ''))
        note('project', p)
    for e in m['enums']:
        add('enum')
        if e['schema'] != 'public':
            add('enum-schema' + (f'={_name_class(e["schema"])}' if _name_class(e['schema']) else ''))
        if _name_class(e['name']):
            add(f'enum-name={_name_class(e["name"])}')
        for it in e['items']:
            if _name_class(it['name']):
                add(f'enum-item-name={_name_class(it["name"])}')
            note('enum-item', it)
    for t in m['tables']:
        if t['schema'] != 'public':
            add('table-schema' + (f'={_name_class(t["schema"])}' if _name_class(t['schema']) else ''))
        if _name_class(t['name']):
            add(f'table-name={_name_class(t["name"])}')
        if t['alias']:
            add('alias' + (f'={_name_class(t["alias"])}' if _name_class(t['alias']) else ''))
        if t['header_color']:
            add('headercolor')
        if t['properties']:
            add('table-property' + ('=multiline' if any('\n' in v for _, v in t['properties']) else ''))
        note('table', t)
        for c in t['columns']:
            if _name_class(c['name']):
                add(f'column-name={_name_class(c["name"])}')
            if _type_class(c['type']):
                add(f'type={_type_class(c["type"])}')
            for k in ('unique', 'not_null', 'pk', 'autoinc'):
                if c[k]:
                    add(k)
            if _default_class(c['default']):
                add(f'default={_default_class(c["default"])}')
            if c['properties']:
                add('column-property' + ('=multiline' if any('\n' in v for _, v in c['properties']) else ''))
            note('column', c)
        for i in t['indexes']:
            kinds = sorted({'col' if 'col' in s else ('expr' if 'expr' in s else 'str') for s in i['subjects']})
            add('index-subject=' + ('composite:' if len(i['subjects']) > 1 else '') + '/'.join(kinds))
            if i['name']:
                add('index-name' + (f'={_name_class(i["name"])}' if _name_class(i['name']) else ''))
            for k in ('unique', 'pk', 'type'):
                if i[k]:
                    add(f'index-{k}')
            note('index', i)
    for r in m['refs']:
        add('ref=' + ('inline:' if r['inline'] else '') + ('composite:' if len(r['c1']) > 1 else '') + r['type'])
        if r['name']:
            add('ref-name' + (f'={_name_class(r["name"])}' if _name_class(r['name']) else ''))
        if r['on_update']:
            add('ref-update')
        if r['on_delete']:
            add('ref-delete')
        if r['t1'] == r['t2']:
            add('ref-self')
    for g in m['table_groups']:
        add('group' if g['items'] else 'group=empty')
        if _name_class(g['name']):
            add(f'group-name={_name_class(g["name"])}')
        if g['color']:
            add('group-color')
        note('group', g)
    for s in m['sticky_notes']:
        add('sticky-note' + ('=multiline' if '\n' in s['text'] else ('=empty' if s['text'] == '' else '')))
        if _name_class(s['name']):
            add(f'sticky-note-name={_name_class(s["name"])}')
    # structural features implied by a more specific one are dropped
    drop = set()
    for base in ('project', 'enum', 'group', 'sticky-note'):
        if any(x.startswith(base + '-') for x in f):
            drop.add(base)
    return [x for x in f if x not in drop]


_FALSY = {'default=int:0': '0', 'default=float:0.0': '0.0', 'default=bool:False': 'False', 'default=str:empty': 'empty'}
_UNQUOTED_SITE = {'type': 'type', 'column-name': 'column-name', 'ref-name': 'ref-name',
                  'sticky-note-name': 'sticky-note-name', 'enum-name': 'enum-name', 'enum-schema': 'enum-schema',
                  'table-name': 'table-name', 'table-schema': 'table-schema', 'alias': 'alias',
                  'index-name': 'index-name', 'group-name': 'group-name', 'project-name': 'project-name',
                  'enum-item-name': 'enum-item-name'}


def _odd_values(m) -> List[Tuple[str, str]]:
    out = []
    for t in m['tables']:
        for c in t['columns']:
            if _name_class(c['name']):
                out.append(('column-name', c['name']))
            if isinstance(c['type'], str) and _type_class(c['type']) in ('multiword', 'other'):
                out.append(('type', c['type']))
    for r in m['refs']:
        if r['name'] and _name_class(r['name']):
            out.append(('ref-name', r['name']))
    for s in m['sticky_notes']:
        if _name_class(s['name']):
            out.append(('sticky-note-name', s['name']))
    return out


def key_of(mode: str, m, text: str) -> str:
    f = features(m)
    fs = set(f)
    if mode == 'differs' and len(f) == 1 and f[0] in _FALSY:
        return f'falsy-default-dropped:{_FALSY[f[0]]}'
    if mode == 'differs' and f == ['default=str:bool-word']:
        return 'string-default-becomes-bool'
    if mode == 'differs' and f == ['default=str:null-word']:
        return 'string-default-becomes-null'
    if mode in ('reparse-error', 'differs'):
        odd = _odd_values(m)
        if len(odd) == 1:
            site, val = odd[0]
            quoted = text.count('"' + val + '"')
            if text.count(val) > quoted:  # some occurrence of the value is written without its quotes
                rest = [x for x in f if not x.startswith(site)]
                if site == 'column-name':
                    if any(x.startswith('index-subject') for x in rest):
                        return 'unquoted:index-subject'
                elif not rest or all(x.startswith('ref=') or x in ('sticky-note', 'ref-self') for x in rest):
                    return f'unquoted:{site}'
    return f'{mode}:' + '+'.join(f[:4]) if f else f'{mode}:plain'


# =========================================================================== model generators

def _col(name='c1', type='int', **kw):
    d = {'name': name, 'type': type}
    d.update(kw)
    return d


def _table(name='t1', cols=None, **kw):
    d = {'name': name, 'columns': cols if cols is not None else [_col('id'), _col('c2')]}
    d.update(kw)
    return d


def _ref(type='>', t1=('public', 't1'), c1=('id',), t2=('public', 't2'), c2=('id',), **kw):
    d = {'type': type, 't1': list(t1), 'c1': list(c1), 't2': list(t2), 'c2': list(c2)}
    d.update(kw)
    return d


def name_model(pos: str, n: str):
    """Rich skeleton in which the name at position `pos` is `n` and is used everywhere a name can be used."""
    v = {p: None for p in NAME_POSITIONS}
    v[pos] = n
    S = v['table_schema'] or 'public'
    T = v['table'] or 't1'
    C = v['column'] or 'id'
    ES = v['enum_schema'] or 'public'
    E = v['enum'] or 'e1'
    m = {
        'enums': [{'schema': ES, 'name': E, 'items': [{'name': v['enum_item'] or 'i1'}, {'name': 'i2'}]}],
        'tables': [
            {'schema': S, 'name': T, 'alias': v['alias'],
             'columns': [_col(C, pk=True), _col('c2', {'enum': [ES, E]}), _col('c3')],
             'indexes': [{'subjects': [{'col': C}], 'name': v['index_name'] or 'ix1'},
                         {'subjects': [{'col': C}, {'col': 'c2'}], 'unique': True}]},
            _table('t2', [_col('id'), _col('k'), _col('k2')]),
        ],
        'refs': [_ref('>', ('public', 't2'), ('id',), (S, T), (C,), name=v['ref_name'] or 'r1'),
                 _ref('<', ('public', 't2'), ('k',), (S, T), (C,), inline=True),
                 _ref('-', (S, T), (C,), ('public', 't2'), ('k2',), inline=True),
                 _ref('<>', (S, T), (C, 'c3'), ('public', 't2'), ('k', 'k2'))],
        'table_groups': [{'name': v['group'] or 'g1', 'items': [[S, T], ['public', 't2']]}],
        'project': {'name': v['project'] or 'p1', 'items': [['database_type', 'PostgreSQL']]},
        'sticky_notes': [{'name': v['sticky_note'] or 'sn1', 'text': 'x'}],
    }
    return m


TYPES = ['int', 'varchar(255)', 'decimal(10, 2)', 'numeric(10,2)', 'int[]', 'character varying', 'double precision',
         'timestamp with time zone', 'x.y', 'character varying(32)', 'VARCHAR', 'int4', '_t']
DEFAULTS = [
    {'kind': 'int', 'value': 0}, {'kind': 'int', 'value': 1}, {'kind': 'int', 'value': 42},
    {'kind': 'float', 'value': '0.0'}, {'kind': 'float', 'value': '1.5'}, {'kind': 'float', 'value': '10.25'},
    {'kind': 'bool', 'value': True}, {'kind': 'bool', 'value': False},
    {'kind': 'str', 'value': ''}, {'kind': 'str', 'value': 'a'}, {'kind': 'str', 'value': 'a b'},
    {'kind': 'str', 'value': 'true'}, {'kind': 'str', 'value': 'false'}, {'kind': 'str', 'value': 'True'},
    {'kind': 'str', 'value': 'null'}, {'kind': 'str', 'value': 'NULL'}, {'kind': 'str', 'value': '0'},
    {'kind': 'str', 'value': '1.5'}, {'kind': 'str', 'value': "it's"}, {'kind': 'str', 'value': 'say "x"'},
    {'kind': 'expr', 'value': 'now()'}, {'kind': 'expr', 'value': "a + 'b'"}, {'kind': 'expr', 'value': 'x'},
]
ML = 'line one\n  indented two\n\nlast'


def enumerated_models() -> Iterator[Tuple[str, Any]]:
    yield 'skeleton', name_model('table', 't1')
    for pos in NAME_POSITIONS:
        for n in NAME_POOL:
            yield f'name:{pos}', name_model(pos, n)
    # odd table / enum names inside a non-default schema
    for n in NAME_POOL:
        yield 'name:table+schema', {'tables': [_table(n, schema='s1'), _table('t2')],
                                    'refs': [_ref('>', ('public', 't2'), ('id',), ('s1', n), ('id',)),
                                             _ref('<', ('s1', n), ('c2',), ('public', 't2'), ('c2',), inline=True)],
                                    'table_groups': [{'name': 'g1', 'items': [['s1', n]]}]}
        yield 'name:enum+schema', {'enums': [{'schema': 's1', 'name': n, 'items': [{'name': 'i1'}]}],
                                   'tables': [_table(cols=[_col('id', {'enum': ['s1', n]}), _col('c2')])]}
    # ---- types
    for ty in TYPES:
        yield 'type', {'tables': [_table(cols=[_col('id', ty), _col('c2', ty, not_null=True, note='n')])]}
    for es in ('public', 's1'):
        yield 'type:enum', {'enums': [{'schema': es, 'name': 'e1', 'items': [{'name': 'i1'}]}],
                            'tables': [_table(cols=[_col('id', {'enum': [es, 'e1']}), _col('c2', {'enum': [es, 'e1']}, pk=True)])]}
    # ---- defaults (alone, and next to other settings)
    for d in DEFAULTS:
        yield 'default', {'tables': [_table(cols=[_col('id', 'varchar', default=d), _col('c2')])]}
        yield 'default+settings', {'tables': [_table(cols=[_col('id', 'varchar', default=d, not_null=True, unique=True, note='n'),
                                                           _col('c2')])]}
    # ---- column flags
    for bits in range(16):
        fl = {k: bool(bits >> i & 1) for i, k in enumerate(('unique', 'not_null', 'pk', 'autoinc'))}
        yield 'flags', {'tables': [_table(cols=[_col('id', **fl), _col('c2')])]}
    yield 'flags:composite-pk', {'tables': [_table(cols=[_col('id', pk=True), _col('c2', pk=True)])]}
    # ---- indexes
    subj = {'col': [{'col': 'id'}], 'comp': [{'col': 'id'}, {'col': 'c2'}], 'expr': [{'expr': 'id*2'}],
            'mixed': [{'col': 'id'}, {'expr': 'lower(c2)'}], 'exprs': [{'expr': 'a'}, {'expr': 'b'}]}
    for sk, ss in subj.items():
        yield 'index', {'tables': [_table(indexes=[{'subjects': ss}])]}
        yield 'index', {'tables': [_table(indexes=[{'subjects': ss, 'name': 'ix', 'unique': True, 'type': 'hash', 'note': 'n'}])]}
        yield 'index', {'tables': [_table(indexes=[{'subjects': ss, 'pk': True}])]}
    for ty in INDEX_TYPES:
        yield 'index:type', {'tables': [_table(indexes=[{'subjects': [{'col': 'id'}], 'type': ty}])]}
    for kw in ({'name': 'ix'}, {'unique': True}, {'note': 'n'}, {'note': ML}, {'pk': True, 'name': 'ix'}):
        yield 'index:setting', {'tables': [_table(indexes=[{'subjects': [{'col': 'id'}], **kw}, {'subjects': [{'col': 'c2'}]}])]}
    # ---- references
    two = [_table('t1', [_col('id'), _col('c2'), _col('c3')]), _table('t2', [_col('id'), _col('c2'), _col('c3')])]
    for ty in ('>', '<', '-', '<>'):
        yield 'ref', {'tables': two, 'refs': [_ref(ty)]}
        yield 'ref:composite', {'tables': two, 'refs': [_ref(ty, c1=('id', 'c2'), c2=('c2', 'c3'))]}
        yield 'ref:named', {'tables': two, 'refs': [_ref(ty, name='r1')]}
        yield 'ref:self', {'tables': two, 'refs': [_ref(ty, t2=('public', 't1'), c2=('c2',))]}
        if ty != '<>':
            yield 'ref:inline', {'tables': two, 'refs': [_ref(ty, inline=True)]}
            yield 'ref:inline-backward', {'tables': two, 'refs': [_ref(ty, ('public', 't2'), ('id',), ('public', 't1'), ('id',), inline=True)]}
            yield 'ref:inline-self', {'tables': two, 'refs': [_ref(ty, t2=('public', 't1'), c2=('c2',), inline=True)]}
            yield 'ref:inline+settings', {'tables': [_table('t1', [_col('id', pk=True, not_null=True, default={'kind': 'int', 'value': 1},
                                                                        note='n'), _col('c2')]), two[1]],
                                          'refs': [_ref(ty, inline=True)]}
        for act in REF_ACTIONS:
            yield 'ref:actions', {'tables': two, 'refs': [_ref(ty, on_update=act, on_delete=act)]}
    yield 'ref:two-inline-one-column', {'tables': two + [_table('t3')],
                                        'refs': [_ref('>', inline=True), _ref('>', t2=('public', 't3'), inline=True)]}
    yield 'ref:mixed', {'tables': two, 'refs': [_ref('>', inline=True), _ref('<', c1=('c2',), c2=('c2',)),
                                                _ref('<>', c1=('c3',), c2=('c3',), name='mm')]}
    sch = [_table('t1', schema='s1'), _table('t1', schema='s2'), _table('t1')]
    yield 'ref:schemas', {'tables': sch, 'refs': [_ref('>', ('s1', 't1'), ('id',), ('s2', 't1'), ('id',)),
                                                  _ref('<', ('s2', 't1'), ('c2',), ('public', 't1'), ('id',), inline=True),
                                                  _ref('-', ('public', 't1'), ('c2',), ('s1', 't1'), ('c2',), inline=True)],
                          'table_groups': [{'name': 'g', 'items': [['s1', 't1'], ['public', 't1'], ['s2', 't1']]}]}
    yield 'ref:aliases', {'tables': [_table('t1', alias='a1'), _table('t2', alias='a2')],
                          'refs': [_ref('>'), _ref('<', c1=('c2',), c2=('c2',), inline=True)]}
    # ---- table level
    for kw in ({'alias': 'al'}, {'header_color': '#fff'}, {'header_color': '#aB12cd'}, {'note': 'n'}, {'note': ML},
               {'schema': 's1'}, {'schema': 's1', 'alias': 'al', 'header_color': '#000', 'note': 'n'}):
        yield 'table', {'tables': [_table(**kw), _table('t2')]}
    yield 'table:properties', {'allow_properties': True,
                               'tables': [_table(properties=[['k', 'v'], ['k2', 'v 2']], note='n', indexes=[{'subjects': [{'col': 'id'}]}]),
                                          _table('t2')]}
    yield 'column:properties', {'allow_properties': True,
                                'tables': [_table(cols=[_col('id', properties=[['k', 'v']], pk=True), _col('c2', properties=[['a', 'b'], ['c', 'd']])])]}
    yield 'table:properties-multiline', {'allow_properties': True, 'tables': [_table(properties=[['k', 'a\nb']])]}
    yield 'column:properties-multiline', {'allow_properties': True, 'tables': [_table(cols=[_col('id', properties=[['k', 'a\nb']]), _col('c2')])]}
    yield 'project:field-multiline', {'project': {'name': 'p1', 'items': [['k', 'a\nb']]}, 'tables': [_table()]}
    yield 'properties:flag-only', {'allow_properties': True, 'tables': [_table()]}
    for kw in ({'note': 'n'}, {'note': ML}):
        yield 'column:note', {'tables': [_table(cols=[_col('id', **kw), _col('c2')])]}
    # ---- enums
    yield 'enum', {'enums': [{'name': 'e1', 'items': [{'name': 'i1', 'note': 'n'}, {'name': 'i2'}]},
                             {'schema': 's1', 'name': 'e1', 'items': [{'name': 'i1'}]}], 'tables': [_table()]}
    yield 'enum:item-note', {'enums': [{'name': 'e1', 'items': [{'name': 'i1', 'note': ML}, {'name': 'i2', 'note': 'n'}]}]}
    yield 'enum:only', {'enums': [{'name': 'e1', 'items': [{'name': 'i1'}]}]}
    # ---- groups, project, sticky notes
    for kw in ({}, {'color': '#fff'}, {'note': 'n'}, {'note': ML}, {'color': '#123456', 'note': 'n'}):
        yield 'group', {'tables': [_table(), _table('t2')], 'table_groups': [{'name': 'g1', 'items': [['public', 't1'], ['public', 't2']], **kw}]}
    yield 'group:empty', {'tables': [_table()], 'table_groups': [{'name': 'g1', 'items': []}]}
    yield 'group:two', {'tables': [_table(), _table('t2')], 'table_groups': [{'name': 'g1', 'items': [['public', 't2']]},
                                                                           {'name': 'g2', 'items': [['public', 't1']]}]}
    for p in ({'name': 'p1'}, {'name': 'p1', 'items': [['database_type', 'PostgreSQL'], ['k', 'v']]},
              {'name': 'p1', 'note': 'n'}, {'name': 'p1', 'note': ML, 'items': [['k', 'v']]}):
        yield 'project', {'project': p, 'tables': [_table()]}
    yield 'project:only', {'project': {'name': 'p1', 'items': [['k', 'v']]}}
    for s in ([{'name': 'sn1', 'text': 'x'}], [{'name': 'sn1', 'text': ML}],
              [{'name': 'sn1', 'text': 'x'}, {'name': 'sn2', 'text': 'y\nz'}]):
        yield 'sticky', {'sticky_notes': s, 'tables': [_table()]}
    yield 'sticky:only', {'sticky_notes': [{'name': 'sn1', 'text': 'x'}]}


def random_model(rnd: random.Random):
    """A model combining the features of the value domain; exotic values are rare so that most models are
    expected to round-trip."""
    used = set()

    def name(prefix, p_odd=0.06):
        for _ in range(20):
            n = rnd.choice(NAME_POOL) if rnd.random() < p_odd else f'{prefix}{rnd.randrange(1, 9)}'
            if n not in used:
                used.add(n)
                return n
        n = f'{prefix}{len(used) + 10}'
        used.add(n)
        return n

    def note(p=0.25):
        r = rnd.random()
        if r > p:
            return None
        if rnd.random() < 0.08:
            return rnd.choice([ML, 'a\nb'])
        return rnd.choice(['n', 'a note', "it's", 'x "y"', 'a # b', '{x} [y]'])

    m: Dict[str, Any] = {'allow_properties': rnd.random() < 0.25}
    enums = []
    for _ in range(rnd.choice((0, 0, 1, 2))):
        used_items = set()
        items = []
        for _ in range(rnd.randint(1, 3)):
            n = rnd.choice(NAME_POOL) if rnd.random() < 0.05 else f'i{len(used_items) + 1}'
            if n in used_items:
                continue
            used_items.add(n)
            items.append({'name': n, 'note': note(0.15)})
        enums.append({'schema': rnd.choice(('public', 'public', 's1')), 'name': name('e'), 'items': items})
    m['enums'] = enums
    tables = []
    for _ in range(rnd.randint(1, 3)):
        cols, cn = [], set()
        for _ in range(rnd.randint(1, 4)):
            n = rnd.choice(NAME_POOL) if rnd.random() < 0.05 else f'c{len(cn) + 1}'
            if n in cn:
                continue
            cn.add(n)
            r = rnd.random()
            if r < 0.6:
                ty = rnd.choice(('int', 'varchar', 'text', 'bool'))
            elif r < 0.8 and enums:
                e = rnd.choice(enums)
                ty = {'enum': [e['schema'], e['name']]}
            elif r < 0.96:
                ty = rnd.choice(('varchar(255)', 'decimal(10, 2)', 'int[]', 'x.y', '_t', 'VARCHAR'))
            else:
                ty = rnd.choice(TYPES)
            c = _col(n, ty)
            for k, p in (('unique', .15), ('not_null', .2), ('pk', .15), ('autoinc', .1)):
                if rnd.random() < p:
                    c[k] = True
            if rnd.random() < 0.25:
                plain = [d for d in DEFAULTS if _default_class(d) in ('int', 'float', 'bool:True', 'str', 'expr', 'str:NULL', 'str:number')]
                c['default'] = copy.deepcopy(rnd.choice(plain if rnd.random() < 0.85 else DEFAULTS))
            c['note'] = note(0.15)
            if m['allow_properties'] and rnd.random() < 0.2:
                c['properties'] = [['k', rnd.choice(['v', 'a b', "q'"])]]
            cols.append(c)
        t = _table(name('t'), cols, schema=rnd.choice(('public', 'public', 'public', 's1', 's2')))
        if rnd.random() < 0.2:
            t['alias'] = name('al')
        if rnd.random() < 0.15:
            t['header_color'] = rnd.choice(('#fff', '#12ab9F'))
        t['note'] = note(0.2)
        if m['allow_properties'] and rnd.random() < 0.2:
            t['properties'] = [['tk', 'tv']]
        idx = []
        for _ in range(rnd.choice((0, 0, 1, 2))):
            ss = []
            for _ in range(rnd.choice((1, 1, 2))):
                if rnd.random() < 0.75:
                    s = {'col': rnd.choice(cols)['name']}
                else:
                    s = {'expr': rnd.choice(('id*2', 'lower(x)', 'a, b'))}
                if s not in ss:
                    ss.append(s)
            i = {'subjects': ss}
            if rnd.random() < 0.3:
                i['name'] = rnd.choice(NAME_POOL) if rnd.random() < 0.1 else 'ix'
            if rnd.random() < 0.2:
                i['unique'] = True
            if rnd.random() < 0.2:
                i['type'] = rnd.choice(INDEX_TYPES)
            if rnd.random() < 0.1:
                i['pk'] = True
            i['note'] = note(0.1)
            idx.append(i)
        t['indexes'] = idx
        tables.append(t)
    # table full names must be unique (names are unique already)
    m['tables'] = tables
    refs, seen = [], set()
    for _ in range(rnd.choice((0, 1, 1, 2, 3))):
        a, b = rnd.choice(tables), rnd.choice(tables)
        k = 1 if rnd.random() < 0.75 else 2
        if len(a['columns']) < k or len(b['columns']) < k:
            k = 1
        c1 = [c['name'] for c in rnd.sample(a['columns'], k)]
        c2 = [c['name'] for c in rnd.sample(b['columns'], k)]
        ty = rnd.choice(('>', '<', '-', '<>'))
        sig = (ty, a['name'], tuple(c1), b['name'], tuple(c2))
        if sig in seen or (a is b and c1 == c2):
            continue
        seen.add(sig)
        r = _ref(ty, (a['schema'], a['name']), c1, (b['schema'], b['name']), c2)
        if k == 1 and ty != '<>' and rnd.random() < 0.4:
            r['inline'] = True
        else:
            if rnd.random() < 0.3:
                r['name'] = rnd.choice(NAME_POOL) if rnd.random() < 0.1 else f'r{len(refs) + 1}'
            if rnd.random() < 0.25:
                r['on_update'] = rnd.choice(REF_ACTIONS)
            if rnd.random() < 0.25:
                r['on_delete'] = rnd.choice(REF_ACTIONS)
        refs.append(r)
    m['refs'] = refs
    groups, pool = [], list(tables)
    rnd.shuffle(pool)
    for _ in range(rnd.choice((0, 0, 1, 2))):
        take = [pool.pop() for _ in range(min(len(pool), rnd.randint(0, 2)))]
        g = {'name': name('g'), 'items': [[t['schema'], t['name']] for t in take]}
        if rnd.random() < 0.3:
            g['color'] = '#abc'
        g['note'] = note(0.2)
        groups.append(g)
    m['table_groups'] = groups
    if rnd.random() < 0.3:
        m['project'] = {'name': name('p'), 'items': [['database_type', 'PostgreSQL']] if rnd.random() < 0.6 else [],
                        'note': note(0.4)}
    m['sticky_notes'] = [{'name': name('sn', 0.03), 'text': rnd.choice(('x', 'two words', ML))}
                         for _ in range(rnd.choice((0, 0, 0, 1, 2)))]
    return m


# =========================================================================== the obligation

class RoundTrip(BObl):
    id = 'C02.B.roundtrip'
    property = 'C02'
    rule = ('recipe kinds: {file} = one of the repository\'s DBML documents, parsed; {enum: k} = k-th model of a fixed '
            'enumeration over the DBML-expressible value domain (11 names x 12 name positions on a skeleton that uses '
            'the name in references, indexes, groups and types; 13 type spellings and enum types; 23 defaults incl. '
            'falsy and bool/null words, alone and next to other settings; 16 flag combinations; index shapes and '
            'settings; 4 reference kinds x single/composite/named/self/inline/actions; schemas; aliases; table, group, '
            'project, sticky-note settings; properties); {rand: i} = seeded random model combining these.  Contract: '
            'db2 = PyDBML(db.dbml): content of db2 == content of db (view() without comments) and db2.dbml == db.dbml.  '
            'Failing models are shrunk; key = cause and site from the features of the minimal model.  '
            'Non-trivial = the database has at least one element; distinct = distinct recipe')
    bound = ('33 parsed documents (comments cleared) + 331 enumerated models (complete enumeration of the one-feature domain) + random models: '
             '600 quick, 30 000 thorough (1-3 tables, 1-4 columns, 0-2 enums/indexes/groups/sticky notes, 0-3 references)')
    chunk = 8
    budget = {'quick': 27.0, 'thorough': 560.0}

    def cases(self, tier, seed):
        for name, _text, _props in parseable_seed_documents():
            yield {'file': name}
        for k, _ in enumerate(enumerated_models()):
            yield {'enum': k}
        n = 600 if tier == 'quick' else 30000
        for i in range(n):
            yield {'rand': i, 'seed': seed}

    def _model(self, recipe):
        if 'enum' in recipe:
            for k, (label, m) in enumerate(enumerated_models()):
                if k == recipe['enum']:
                    return label, m
            raise IndexError(recipe)
        rnd = random.Random(f"c02/{recipe['seed']}/{recipe['rand']}")
        return 'random', random_model(rnd)

    def nontrivial(self, recipe):
        return True

    def _report(self, m, r, origin):
        from spec.model import normalize
        mode, path, msg, text = r
        small = shrink(m, (mode, path))
        r2 = None
        try:
            r2 = run_model(small)
        except Exception:
            pass
        if r2 is None:
            small, r2 = normalize(m), r
        mode, path, msg, text = r2
        key = key_of(mode, small, text)
        shown = {k: v for k, v in small.items() if v not in (None, [], False)}
        return key, f'{origin}: {mode}: {msg} | minimal model: {repr(shown)[:420]}'

    def check(self, recipe):
        from pydbml import PyDBML
        from spec.model import view, normalize
        if 'file' in recipe:
            docs = {n: (t, p) for n, t, p in parseable_seed_documents()}
            text, props = docs[recipe['file']]
            db = PyDBML(text, allow_properties=True) if props else PyDBML(text)
            _clear_comments(db)
            r = roundtrip(db, props)
            if r is None:
                return None
            # reproduce through the public classes from the parsed content, then shrink there
            m = normalize(view(db))
            try:
                r_api = run_model(m)
            except Exception:
                r_api = None
            if r_api is not None and r_api[0] == r[0]:
                return self._report(m, r_api, f'parsed {recipe["file"]}')
            mode, path, msg, _ = r
            return f'parsed-only:{mode}:{path or "-"}', f'parsed {recipe["file"]}: {mode}: {msg}'
        label, m = self._model(recipe)
        r = run_model(m)
        if r is None:
            return None
        return self._report(m, r, f'model {label}')


OBLIGATIONS = [RoundTrip()]
