"""Helpers shared by bounded/c13.py, bounded/c08.py and bounded/c02.py.

Everything here is *specification side*: written from the property statements C13 / C08 / C02
and the DBML documentation, never from what pydbml happens to do.  Nothing in this module is
a copy of the code under test.
"""
from __future__ import annotations

import glob
import itertools
import os
import re
import traceback
from typing import Any, Dict, Iterable, Iterator, List, Optional, Sequence, Tuple

REPO = os.environ.get('VERIF_REPO', '/repo')


# --------------------------------------------------------------------------- enumeration

def strings_upto(alphabet: Sequence[str], n: int, sep: str = '') -> Iterator[str]:
    """All strings of length 0..n over `alphabet` (shortest first, alphabet order)."""
    for k in range(n + 1):
        for tup in itertools.product(alphabet, repeat=k):
            yield sep.join(tup)


def tuples_upto(size: int, n: int) -> Iterator[List[int]]:
    """All index tuples of length 0..n over range(size) (JSON friendly recipes)."""
    for k in range(n + 1):
        for tup in itertools.product(range(size), repeat=k):
            yield list(tup)


# --------------------------------------------------------------------------- note normal form

def is_blank(line: str) -> bool:
    """A blank line is empty or consists of white space only."""
    return line.strip() == ''


def indent_of(line: str) -> int:
    return len(line) - len(line.lstrip())


def norm_spec(t: str) -> str:
    """C13: 'stored after removing leading/trailing blank lines and the indentation common to
    all lines'.  Blank interior lines do not take part in the common indentation (they carry
    no text); they lose what they have, up to the common amount.  Text without any non-blank
    line normalises to the empty text."""
    lines = t.split('\n')
    while lines and is_blank(lines[0]):
        lines.pop(0)
    while lines and is_blank(lines[-1]):
        lines.pop()
    if not lines:
        return ''
    k = min(indent_of(l) for l in lines if not is_blank(l))
    return '\n'.join(l[k:] for l in lines)


def is_normal(t: str) -> bool:
    """Non-empty text already in normal form (not white-space only)."""
    return t.strip() != '' and norm_spec(t) == t


def norm_contract(t: str, r: str) -> Optional[str]:
    """Relational contract between a text `t` (with a non-blank line) and its stored form `r`.
    Returns a description of the broken clause or None."""
    rl = r.split('\n')
    if is_blank(rl[0]):
        return 'result starts with a blank line'
    if is_blank(rl[-1]):
        return 'result ends with a blank line'
    core = t.split('\n')
    while core and is_blank(core[0]):
        core.pop(0)
    while core and is_blank(core[-1]):
        core.pop()
    if len(core) != len(rl):
        return f'result has {len(rl)} lines, text without outer blank lines has {len(core)}'
    # nothing common is left: with one kind of blank this is "some non-blank line has indentation 0"; with mixed
    # tabs and spaces both readings of "common indentation" (same characters / same amount) are accepted
    nb = [l[:indent_of(l)] for l in rl if not is_blank(l)]
    if nb and os.path.commonprefix(nb) != '' and min(len(x) for x in nb) > 0:
        return f'the non-blank lines of the result still share the indentation {os.path.commonprefix(nb)!r}'
    ks = set()
    for a, b in zip(core, rl):
        if not a.endswith(b):
            return f'line {b!r} is not a suffix of source line {a!r}'
        cut = a[:len(a) - len(b)]
        if cut.strip() != '':
            return f'non-indentation characters {cut!r} removed from line {a!r}'
        if not is_blank(a):
            ks.add(len(cut))
    if len(ks) > 1:
        return f'lines lost prefixes of different lengths {sorted(ks)}'
    # interior blank lines carry no text: any amount of their white space may go (checked above: only white space)
    return None


# --------------------------------------------------------------------------- character classes

_CLASS_OF = {
    '\\': 'backslash', "'": 'quote', '"': 'double-quote', '\n': 'newline', '`': 'backtick',
    '{': 'brace', '}': 'brace', '[': 'bracket', ']': 'bracket', '#': 'hash',
    '/': 'comment-marker', '*': 'comment-marker', '(': 'paren', ')': 'paren', '.': 'dot',
}
# order in which classes are tried for removal when a failing text is narrowed
CLASS_ORDER = ['dot', 'paren', 'hash', 'bracket', 'brace', 'comment-marker', 'non-ascii', 'backtick',
               'double-quote', 'quote', 'newline', 'backslash']


def char_class(ch: str) -> Optional[str]:
    c = _CLASS_OF.get(ch)
    if c:
        return c
    if ord(ch) > 127:
        return 'non-ascii'
    return None


def classes_of(t: str) -> List[str]:
    out = []
    for ch in t:
        c = char_class(ch)
        if c and c not in out:
            out.append(c)
    return out


def without_class(t: str, cls: str) -> str:
    """`t` with every character of class `cls` replaced by the letter a."""
    return ''.join('a' if char_class(ch) == cls else ch for ch in t)


# fixed priority in which one class is chosen to label a text (key vocabulary: these names and other/blank/empty)
CLASS_PRIORITY = ['backslash', 'triple-quote', 'single-quote', 'newline', 'double-quote', 'backtick', 'brace',
                  'bracket', 'hash', 'comment-marker', 'non-ascii', 'paren', 'dot']


def label_classes(t: str) -> List[str]:
    """Classes present in a text, in the fixed priority order ('quote' split into triple-/single-quote:
    a text with ''' has both)."""
    cl = classes_of(t)
    out = []
    for c in CLASS_PRIORITY:
        if c == 'triple-quote':
            if "'''" in t:
                out.append(c)
        elif c == 'single-quote':
            if "'" in t:
                out.append(c)
        elif c in cl:
            out.append(c)
    return out


def class_label(t: str) -> str:
    """ONE class name for a text: the first class present in the fixed priority order."""
    lab = label_classes(t)
    if lab:
        return lab[0]
    if t == '':
        return 'empty'
    if t.strip() == '':
        return 'blank'
    return 'other'


def without_label_class(t: str, label: str) -> str:
    if label in ('triple-quote', 'single-quote'):
        return without_class(t, 'quote')
    return without_class(t, label)


def narrow_text(t: str, fails, in_domain=lambda s: True) -> str:
    """Greedy 1-minimal narrowing of a failing text: replace whole character classes by the
    letter a while the case still fails (`fails(s)` is truthy) and stays in the domain."""
    def by_class(cur):
        for cls in CLASS_ORDER:
            if cls not in classes_of(cur):
                continue
            cand = without_class(cur, cls)
            if cand == cur or not in_domain(cand):
                continue
            if fails(cand):
                cur = cand
        return cur

    cur = by_class(t)
    if len(classes_of(cur)) > 1:
        # several classes left (often only because replacing one leaves the domain, e.g. the normal form of
        # notes): delete single characters while the text stays in the domain and keeps failing
        progress = True
        while progress:
            progress = False
            for i in range(len(cur)):
                cand = cur[:i] + cur[i + 1:]
                if cand and in_domain(cand) and fails(cand):
                    cur, progress = cand, True
                    break
        cur = by_class(cur)
    # triple quote -> try a single quote in its place
    if "'''" in cur:
        cand = cur.replace("'''", "'aa")
        if in_domain(cand) and fails(cand):
            cur = cand
    return cur


# --------------------------------------------------------------------------- DBML literals

def lit_single(t: str) -> str:
    """'…' with the delimiter and the backslash backslash-escaped (single line only)."""
    assert '\n' not in t
    return "'" + t.replace('\\', '\\\\').replace("'", "\\'") + "'"


def lit_double(t: str) -> str:
    assert '\n' not in t
    return '"' + t.replace('\\', '\\\\').replace('"', '\\"') + '"'


def lit_triple(t: str) -> str:
    """'''…''' with backslash and every quote character escaped (so that no run of quotes in
    the body can be read as the closing delimiter)."""
    return "'''" + t.replace('\\', '\\\\').replace("'", "\\'") + "'''"


def lit_auto(t: str) -> str:
    return lit_triple(t) if '\n' in t else lit_single(t)


# --------------------------------------------------------------------------- exception classification

def allowed_parse_exception(e: BaseException) -> bool:
    """C08: parse error (pyparsing.ParseBaseException), a class from pydbml.exceptions, or
    SyntaxError (column-less table)."""
    import pyparsing as pp
    import pydbml.exceptions as pex
    if isinstance(e, pp.ParseBaseException):
        return True
    if isinstance(e, SyntaxError):
        return True
    own = tuple(v for v in vars(pex).values() if isinstance(v, type) and issubclass(v, Exception)
                and v.__module__ == pex.__name__)
    return isinstance(e, own)


def innermost_pydbml_function(e: BaseException) -> str:
    """Name of the innermost traceback frame that lies in the pydbml package."""
    name = '?'
    root = os.path.join(REPO, 'pydbml') + os.sep
    for fr in traceback.extract_tb(e.__traceback__):
        fn = os.path.abspath(fr.filename)
        if fn.startswith(root) or (os.sep + 'pydbml' + os.sep) in fn:
            name = fr.name
            if name == '<lambda>':
                name = 'lambda@' + os.path.basename(fn).replace('.py', '') + ':' + str(fr.lineno)
    return name


def exc_line(e: BaseException) -> str:
    s = f'{type(e).__name__}: {e}'
    return s.replace('\n', '\\n')[:200]


def elements_of(db) -> List[Tuple[str, Any]]:
    """Every element of a database whose .dbml / .sql the statement talks about."""
    out: List[Tuple[str, Any]] = []

    def note(label, holder):
        n = getattr(holder, 'note', None)
        if n is not None:
            out.append((label + '.note', n))

    for t in db.tables:
        out.append(('table', t))
        note('table', t)
        for c in t.columns:
            out.append(('column', c))
            note('column', c)
        for i in t.indexes:
            out.append(('index', i))
            note('index', i)
    for en in db.enums:
        out.append(('enum', en))
        for it in en.items:
            out.append(('enum_item', it))
            note('enum_item', it)
    for r in db.refs:
        out.append(('ref', r))
    for g in db.table_groups:
        out.append(('table_group', g))
        note('table_group', g)
    if db.project is not None:
        out.append(('project', db.project))
        note('project', db.project)
    for n in db.sticky_notes:
        out.append(('sticky_note', n))
    return out


def no_internal_error(text: str, allow_properties: bool = False, via: str = 'ctor') -> Optional[Tuple[str, str]]:
    """The outcome contract of C08 on one input text.  Returns None or (key, message)."""
    from pydbml import PyDBML
    from pydbml.database import Database
    try:
        if allow_properties:
            db = PyDBML(text, allow_properties=True)
        else:
            db = PyDBML(text)
    except RecursionError:
        return None  # the statement bounds nesting depth by the interpreter's recursion limit
    except BaseException as e:  # noqa
        if isinstance(e, (KeyboardInterrupt, SystemExit, MemoryError)):
            raise
        if allowed_parse_exception(e):
            return None
        key = f'{type(e).__name__}@parse:{innermost_pydbml_function(e)}'
        return key, (f'parsing must return a database or raise ParseBaseException / pydbml.exceptions.* / '
                     f'SyntaxError; observed {exc_line(e)}; input={text[:300]!r} allow_properties={allow_properties}')
    if not isinstance(db, Database):
        return (f'not-a-database@parse:{type(db).__name__}',
                f'parsing returned {type(db).__name__}, expected Database; input={text[:300]!r}')
    for attr in ('dbml', 'sql'):
        try:
            getattr(db, attr)
        except RecursionError:
            continue
        except Exception as e:
            key = f'{type(e).__name__}@{attr}:{innermost_pydbml_function(e)}'
            return key, (f'Database.{attr} of a parsed database must not raise; observed {exc_line(e)}; '
                         f'input={text[:300]!r} allow_properties={allow_properties}')
    for label, el in elements_of(db):
        for attr in ('dbml', 'sql'):
            if not hasattr(type(el), attr):
                continue
            try:
                getattr(el, attr)
            except RecursionError:
                continue
            except Exception as e:
                key = f'{type(e).__name__}@{attr}:{innermost_pydbml_function(e)}'
                return key, (f'{label}.{attr} of an element of a parsed database must not raise; observed '
                             f'{exc_line(e)}; input={text[:300]!r} allow_properties={allow_properties}')
    return None


# --------------------------------------------------------------------------- tiny SQL scanner

def split_sql_statements(sql: str) -> List[str]:
    """Split SQL text at `;` outside '…' literals, "…" identifiers, -- and /* */ comments."""
    out, cur, i, n = [], [], 0, len(sql)
    while i < n:
        ch = sql[i]
        if ch == "'":
            j = i + 1
            while j < n:
                if sql[j] == "'":
                    if j + 1 < n and sql[j + 1] == "'":
                        j += 2
                        continue
                    break
                j += 1
            cur.append(sql[i:j + 1])
            i = j + 1
        elif ch == '"':
            j = sql.find('"', i + 1)
            j = n - 1 if j < 0 else j
            cur.append(sql[i:j + 1])
            i = j + 1
        elif sql.startswith('--', i):
            j = sql.find('\n', i)
            j = n if j < 0 else j
            cur.append(sql[i:j])
            i = j
        elif ch == ';':
            out.append(''.join(cur).strip())
            cur = []
            i += 1
        else:
            cur.append(ch)
            i += 1
    rest = ''.join(cur).strip()
    if rest:
        out.append(rest)
    return out


def read_sql_literal(s: str, pos: int) -> Optional[Tuple[str, int]]:
    """Read one single-quoted SQL literal starting at s[pos] == "'" ('' is an embedded quote).
    Returns (content, position after the closing quote) or None if unterminated."""
    if pos >= len(s) or s[pos] != "'":
        return None
    i, n, buf = pos + 1, len(s), []
    while i < n:
        if s[i] == "'":
            if i + 1 < n and s[i + 1] == "'":
                buf.append("'")
                i += 2
                continue
            return ''.join(buf), i + 1
        buf.append(s[i])
        i += 1
    return None


def sql_text_canon(t: str) -> str:
    """What survives of a note text in SQL under any admissible neutralisation: the DBML line
    continuation (backslash newline) is removed, single quotes may have become double quotes."""
    return t.replace('\\\n', '').replace("'", '"')


# --------------------------------------------------------------------------- seed documents

_DOC_CACHE: Optional[List[Tuple[str, str]]] = None
_PARSEABLE_CACHE: Optional[List[Tuple[str, str, bool]]] = None


def _md_candidates(path: str) -> List[str]:
    """DBML-looking chunks of a markdown file: bodies of '''…''' strings in doctest code and the
    printed output blocks that follow `>>>` lines."""
    try:
        text = open(path, encoding='utf8').read()
    except OSError:
        return []
    out = []
    for block in re.findall(r'```[a-z]*\n(.*?)```', text, flags=re.S):
        code, outp = [], []
        chunks = []
        for line in block.split('\n'):
            if line.startswith('>>> ') or line.startswith('... ') or line in ('>>>', '...'):
                if outp:
                    chunks.append('\n'.join(outp))
                    outp = []
                code.append(line[4:])
            else:
                outp.append('' if line.strip() == '<BLANKLINE>' else line)
        if outp:
            chunks.append('\n'.join(outp))
        src = '\n'.join(code)
        for m in re.finditer(r"'''(.*?)'''|\"\"\"(.*?)\"\"\"", src, flags=re.S):
            chunks.append(m.group(1) if m.group(1) is not None else m.group(2))
        out.extend(c for c in chunks if re.search(r'\b(Table|Enum|Ref|Project|TableGroup|Note)\b', c, flags=re.I))
    return out


def seed_documents() -> List[Tuple[str, str]]:
    """[(name, text)] : the repository's own DBML documents (test data, docs examples, markdown
    examples that are DBML).  Order is fixed (sorted paths)."""
    global _DOC_CACHE
    if _DOC_CACHE is not None:
        return _DOC_CACHE
    docs: List[Tuple[str, str]] = []
    paths = sorted(glob.glob(os.path.join(REPO, 'test', 'test_data', '*.dbml')))
    paths += sorted(glob.glob(os.path.join(REPO, 'test', 'test_data', 'docs', '*.dbml')))
    paths += sorted(glob.glob(os.path.join(REPO, '*.dbml')))
    for p in paths:
        try:
            docs.append((os.path.relpath(p, REPO), open(p, encoding='utf8').read()))
        except OSError:
            pass
    mds = sorted(glob.glob(os.path.join(REPO, 'docs', '*.md'))) + [os.path.join(REPO, 'README.md')]
    for p in mds:
        for i, c in enumerate(_md_candidates(p)):
            docs.append((f'{os.path.relpath(p, REPO)}#{i}', c))
    _DOC_CACHE = docs
    return docs


def parseable_seed_documents() -> List[Tuple[str, str, bool]]:
    """Seed documents that the real parser accepts: (name, text, allow_properties)."""
    from pydbml import PyDBML
    from pydbml.database import Database
    global _PARSEABLE_CACHE
    if _PARSEABLE_CACHE is not None:
        return _PARSEABLE_CACHE
    out = []
    for name, text in seed_documents():
        for props in (False, True):
            try:
                db = PyDBML(text, allow_properties=props) if props else PyDBML(text)
            except Exception:
                continue
            if isinstance(db, Database) and (db.tables or db.enums or db.project or db.sticky_notes):
                out.append((name, text, props))
                break
    _PARSEABLE_CACHE = out
    return out
