"""C07 extra: an unterminated single-line string is a syntax error even when a matching quote
character occurs later in the document (in a comment, in a later element) — the literal must not
swallow the lines in between."""
from __future__ import annotations

from lib.bounded import BObl

SITES = {
    'table-note': "Table t {{\n  id int\n  Note: {OPEN}\n  other int\n}}\n{LATER}",
    'column-note': "Table t {{\n  id int [note: {OPEN}]\n  other int\n}}\n{LATER}",
    'project-field': "Project p {{\n  database_type: {OPEN}\n}}\nTable t {{\n id int\n}}\n{LATER}",
    'sticky-note': "Note n {{\n  {OPEN}\n}}\nTable t {{\n id int\n}}\n{LATER}",
    'index-name': "Table t {{\n  id int\n  indexes {{\n    id [name: {OPEN}]\n  }}\n}}\n{LATER}",
    'default': "Table t {{\n  id int [default: {OPEN}]\n}}\n{LATER}",
    'enum-item-note': "Enum e {{\n  a [note: {OPEN}]\n  b\n}}\n{LATER}",
}
LATER = {
    'comment': "// closing {Q} in a comment\n",
    'block-comment': "/* a {Q} here */\n",
    'next-literal': "Table u {{\n  id int [note: {Q}fine{Q}]\n}}\n",
    'none': "",
    # a comment holding the quote, followed by a copy of what follows the literal at its site: if the
    # literal swallowed everything up to that quote, the rest of the document would again be well-formed
    'resume': None,
}


class OpenString(BObl):
    id = 'C07.B.open-string'
    property = 'C07'
    rule = ('a well-formed document in which one single-line string literal lost its closing quote; a later quote '
            'character of the same kind may follow on another line; the parse must raise a pyparsing error')
    bound = 'exhaustive: 7 literal sites x {single, double} quote x 5 kinds of later text'

    def cases(self, tier, seed):
        for site in SITES:
            for q in ("'", '"'):
                for later in LATER:
                    yield {'site': site, 'quote': q, 'later': later}

    def exhaustive(self, tier):
        return True

    def check(self, r):
        import pyparsing as pp
        from pydbml import PyDBML
        q = r['quote']
        if r['later'] == 'resume':
            rest = SITES[r['site']].split('{OPEN}')[1].replace('{LATER}', '').format()
            later = '// x ' + q + rest
        else:
            later = LATER[r['later']].format(Q=q)
        text = SITES[r['site']].format(OPEN=q + 'abc', LATER=later)
        closed = SITES[r['site']].format(OPEN=q + 'abc' + q, LATER='' if r['later'] == 'resume' else later)
        try:
            PyDBML(closed)
        except Exception as e:
            return ('harness:closed-form-rejected', f'{type(e).__name__}: {e}\n{closed}')
        try:
            PyDBML(text)
        except pp.ParseBaseException:
            return None
        except Exception as e:
            return (f'wrong-exception:{type(e).__name__}', text)
        return (f'accepted:{r["site"]}:{ {chr(39): "single", chr(34): "double"}[q] }', f'accepted:\n{text}')


OBLIGATIONS = [OpenString()]


class StrayBom(BObl):
    id = 'C07.B.stray-bom'
    property = 'C07'
    rule = ('a well-formed document with byte-order marks added: exactly one at the very start is tolerated, any '
            'other (a second leading one, one between or inside elements, one at the end) is a stray token and the '
            'parse must raise a pyparsing error; through every text entry point')
    bound = 'exhaustive: 5 placements x 3 entry points'

    def cases(self, tier, seed):
        for place in ('one-leading', 'two-leading', 'three-leading', 'between', 'end'):
            for route in ('ctor', 'parse', 'file'):
                yield {'place': place, 'route': route}

    def exhaustive(self, tier):
        return True

    def check(self, r):
        import io
        import os
        import tempfile
        import pyparsing as pp
        from pydbml import PyDBML
        base = 'Table a {\n  id int\n}\n'
        other = 'Table b {\n  id int\n}\n'
        bom = '\ufeff'
        text = {'one-leading': bom + base + other, 'two-leading': bom * 2 + base,
                'three-leading': bom * 3 + base, 'between': base + bom + other,
                'end': base + bom}[r['place']]
        want_ok = r['place'] == 'one-leading'
        try:
            if r['route'] == 'ctor':
                PyDBML(text)
            elif r['route'] == 'parse':
                PyDBML.parse(text)
            else:
                fd, path = tempfile.mkstemp(suffix='.dbml')
                try:
                    with os.fdopen(fd, 'w', encoding='utf8') as f:
                        f.write(text)
                    PyDBML.parse_file(path)
                finally:
                    os.unlink(path)
            ok = True
        except pp.ParseBaseException:
            ok = False
        except Exception as e:
            return (f'wrong-exception:{type(e).__name__}', repr(text))
        if ok != want_ok:
            return (f'{"accepted" if ok else "rejected"}:{r["place"]}:{r["route"]}', repr(text))
        return None


OBLIGATIONS.append(StrayBom())


class CommentToken(BObl):
    """A comment is `//` up to (not including) the end of its line, or `/*` up to the first `*/` — nothing else.  A
    comment token that reaches further (a backslash continuation, a nested form) would hide whatever stands on the
    next line from the grammar, so a fault there would be accepted."""
    id = 'C07.B.comment-token'
    property = 'C07'
    rule = ('the live `comment` element of pydbml.definitions.common scanned over `//w` and `/*w` for every word w over '
            '{/ * \\ newline a space}: the matched span must be the documented one (line comment: up to the next newline '
            'or the end; block comment: up to and including the first */, no match without one); then, through the '
            'parser, a fault line placed after a comment ending in each such word must be rejected')
    bound = 'exhaustive: 2 openers x all words of length <= 4 over a 6-letter alphabet (3110 spans) + 2 x 259 words (length <= 3) x 3 fault documents'
    budget = {'quick': 25.0, 'thorough': 60.0}
    chunk = 128
    ALPHA = ['/', '*', '\\', '\n', 'a', ' ']

    def cases(self, tier, seed):
        import itertools
        for n in range(0, 5):
            for w in itertools.product(self.ALPHA, repeat=n):
                for op in ('//', '/*'):
                    yield {'kind': 'span', 'open': op, 'w': ''.join(w)}
        for n in range(0, 4):
            for w in itertools.product(self.ALPHA, repeat=n):
                for op in ('//', '/*'):
                    for doc in ('column', 'top', 'enum'):
                        yield {'kind': 'fault', 'open': op, 'w': ''.join(w), 'doc': doc}

    def exhaustive(self, tier):
        return True

    def check(self, r):
        import pyparsing as pp
        op, w = r['open'], r['w']
        if r['kind'] == 'span':
            import pydbml.definitions.common as C
            text = op + w
            if op == '//':
                want = text.find('\n')
                want = len(text) if want < 0 else want
            else:
                k = w.find('*/')
                want = None if k < 0 else 2 + k + 2
            try:
                got = None
                for _t, s, e in C.comment.scan_string(text, max_matches=1):
                    got = e if s == 0 else None
            except pp.ParseBaseException:
                got = None
            if got != want:
                return (f'comment-span:{"line" if op == "//" else "block"}:{"longer" if (got or 0) > (want or 0) else "shorter"}',
                        f'{text!r}: comment matched up to {got}, documented span ends at {want}')
            return None
        from pydbml import PyDBML
        if op == '//':
            com = '//' + w.replace('\n', ' ')           # one line
        else:
            com = '/*' + w.replace('*/', '* /') + '*/'
        docs = {'column': ('Table t {{\n  id int {C}\n  {F}\n}}\n', 'other int int'),
                'top': ('Table t {{\n  id int\n}}\n{C}\n{F}\nTable u {{\n  id int\n}}\n', 'Tabel x {'),
                'enum': ('Enum e {{\n  a {C}\n  {F}\n  b\n}}\n', 'b [')}
        tpl, fault = docs[r['doc']]
        good, bad = tpl.format(C=com, F=''), tpl.format(C=com, F=fault)
        try:
            PyDBML(good)
        except Exception:      # noqa: BLE001 - the comment itself is not acceptable here: proves nothing
            return None
        try:
            PyDBML(bad)
        except pp.ParseBaseException:
            return None
        except Exception as e:     # noqa: BLE001
            return (f'wrong-exception:{type(e).__name__}', bad)
        return (f'fault-after-comment-accepted:{r["doc"]}', f'accepted:\n{bad}')


OBLIGATIONS.append(CommentToken())
