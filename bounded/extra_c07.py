"""C07 extra: an unterminated single-line string is a syntax error even when a matching quote
character occurs later in the document (in a comment, in a later element) — the literal must not
swallow the lines in between."""
from __future__ import annotations

from lib.bounded import BObl

SITES = {
    'table-note': "Table t {{\n  id int\n  Note: {OPEN}\n  other int\n}}\n{LATER}",
    'column-note': "Table t {{\n  id int [note: {OPEN}]\n  other int\n}}\n{LATER}",
    'project-field': "Project p {{\n  database_type: {OPEN}\n}}\nTable t {{\n id int\n}}\n{LATER}",
    'sticky-note': "Note n {{\n  {OPEN}\n}}\nTable t {{\n id int\n}}\n{LATER}",
    'index-name': "Table t {{\n  id int\n  indexes {{\n    id [name: {OPEN}]\n  }}\n}}\n{LATER}",
    'default': "Table t {{\n  id int [default: {OPEN}]\n}}\n{LATER}",
    'enum-item-note': "Enum e {{\n  a [note: {OPEN}]\n  b\n}}\n{LATER}",
}
LATER = {
    'comment': "// closing {Q} in a comment\n",
    'block-comment': "/* a {Q} here */\n",
    'next-literal': "Table u {{\n  id int [note: {Q}fine{Q}]\n}}\n",
    'none': "",
    # a comment holding the quote, followed by a copy of what follows the literal at its site: if the
    # literal swallowed everything up to that quote, the rest of the document would again be well-formed
    'resume': None,
}


class OpenString(BObl):
    id = 'C07.B.open-string'
    property = 'C07'
    rule = ('a well-formed document in which one single-line string literal lost its closing quote; a later quote '
            'character of the same kind may follow on another line; the parse must raise a pyparsing error')
    bound = 'exhaustive: 7 literal sites x {single, double} quote x 5 kinds of later text'

    def cases(self, tier, seed):
        for site in SITES:
            for q in ("'", '"'):
                for later in LATER:
                    yield {'site': site, 'quote': q, 'later': later}

    def exhaustive(self, tier):
        return True

    def check(self, r):
        import pyparsing as pp
        from pydbml import PyDBML
        q = r['quote']
        if r['later'] == 'resume':
            rest = SITES[r['site']].split('{OPEN}')[1].replace('{LATER}', '').format()
            later = '// x ' + q + rest
        else:
            later = LATER[r['later']].format(Q=q)
        text = SITES[r['site']].format(OPEN=q + 'abc', LATER=later)
        closed = SITES[r['site']].format(OPEN=q + 'abc' + q, LATER='' if r['later'] == 'resume' else later)
        try:
            PyDBML(closed)
        except Exception as e:
            return ('harness:closed-form-rejected', f'{type(e).__name__}: {e}\n{closed}')
        try:
            PyDBML(text)
        except pp.ParseBaseException:
            return None
        except Exception as e:
            return (f'wrong-exception:{type(e).__name__}', text)
        return (f'accepted:{r["site"]}:{ {chr(39): "single", chr(34): "double"}[q] }', f'accepted:\n{text}')


OBLIGATIONS = [OpenString()]


class StrayBom(BObl):
    id = 'C07.B.stray-bom'
    property = 'C07'
    rule = ('a well-formed document with byte-order marks added: exactly one at the very start is tolerated, any '
            'other (a second leading one, one between or inside elements, one at the end) is a stray token and the '
            'parse must raise a pyparsing error; through every text entry point')
    bound = 'exhaustive: 5 placements x 3 entry points'

    def cases(self, tier, seed):
        for place in ('one-leading', 'two-leading', 'three-leading', 'between', 'end'):
            for route in ('ctor', 'parse', 'file'):
                yield {'place': place, 'route': route}

    def exhaustive(self, tier):
        return True

    def check(self, r):
        import io
        import os
        import tempfile
        import pyparsing as pp
        from pydbml import PyDBML
        base = 'Table a {\n  id int\n}\n'
        other = 'Table b {\n  id int\n}\n'
        bom = '\ufeff'
        text = {'one-leading': bom + base + other, 'two-leading': bom * 2 + base,
                'three-leading': bom * 3 + base, 'between': base + bom + other,
                'end': base + bom}[r['place']]
        want_ok = r['place'] == 'one-leading'
        try:
            if r['route'] == 'ctor':
                PyDBML(text)
            elif r['route'] == 'parse':
                PyDBML.parse(text)
            else:
                fd, path = tempfile.mkstemp(suffix='.dbml')
                try:
                    with os.fdopen(fd, 'w', encoding='utf8') as f:
                        f.write(text)
                    PyDBML.parse_file(path)
                finally:
                    os.unlink(path)
            ok = True
        except pp.ParseBaseException:
            ok = False
        except Exception as e:
            return (f'wrong-exception:{type(e).__name__}', repr(text))
        if ok != want_ok:
            return (f'{"accepted" if ok else "rejected"}:{r["place"]}:{r["route"]}', repr(text))
        return None


OBLIGATIONS.append(StrayBom())
