"""C02 extra: round trip of databases in which a table's alias equals another table's name."""
from __future__ import annotations

from lib.bounded import BObl
from spec.model import view, normalize


class AliasShadowRoundTrip(BObl):
    id = 'C02.B.alias-shadow-roundtrip'
    property = 'C02'
    rule = 'API-built databases where a table alias equals another table\'s name, with refs and a group naming the shadowed table'
    bound = 'exhaustive over ref kind x inline x schema of the shadowed table x group x declaration order (fixed family)'

    def cases(self, tier, seed):
        for typ in ('>', '<', '-'):
            for inline in (False, True):
                for sch in ('public', 's2'):
                    for group in (False, True):
                        for order in ('alias-first', 'name-first'):
                            yield {'type': typ, 'inline': inline, 'schema': sch, 'group': group, 'order': order}

    def exhaustive(self, tier):
        return True

    def check(self, r):
        from pydbml import PyDBML, Database
        from pydbml.classes import Table, Column, Reference, TableGroup
        db = Database()
        acc = Table('accounts', schema='app', alias='users', columns=[Column('id', 'int'), Column('uid', 'int')])
        usr = Table('users', schema=r['schema'], columns=[Column('id', 'int'), Column('aid', 'int')])
        if r.get('order', 'alias-first') == 'alias-first':
            db.add(acc)
            db.add(usr)
        else:       # the table whose name the alias spells is declared first
            db.add(usr)
            db.add(acc)
        db.add(Reference(r['type'], usr.columns[1], acc.columns[0], inline=r['inline']))
        db.add(Reference('>', acc.columns[1], usr.columns[0]))
        if r['group']:
            db.add(TableGroup('g', [usr, acc]))
        try:
            text = db.dbml
            db2 = PyDBML(text)
        except Exception as e:
            return ('reparse-error:' + type(e).__name__, f'{type(e).__name__}: {e}')
        v1, v2 = normalize(view(db)), normalize(view(db2))
        key = lambda x: (x['t1'], x['c1'], x['t2'], x['c2'], x['type'])
        v1['refs'].sort(key=key)
        v2['refs'].sort(key=key)
        if v1 != v2:
            from spec.model import diff
            return ('differs:alias-shadow', '; '.join(diff(v1, v2)[:4]) + '\n' + text)
        if db2.dbml != text:
            return ('not-fixpoint:alias-shadow', text)
        return None


OBLIGATIONS = [AliasShadowRoundTrip()]
