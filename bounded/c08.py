"""C08 — parsing and rendering never fail with an internal error.  Bounded run-time contract on the
real `PyDBML(text)`, `Database.dbml`, `Database.sql` and every element's `.dbml` / `.sql`.

C08.B.soup       token soups (top level and inside eight syntactic contexts)
C08.B.fills      well-formed templates whose identifier / text / type / comment sites take every short string
C08.B.mutations  seeded token- and character-level mutations of the repository's own documents

Outcome contract (bounded/_text_models.no_internal_error): the parser returns a Database or raises
pyparsing.ParseBaseException, a pydbml.exceptions class or SyntaxError; if a Database comes back,
`.dbml` and `.sql` of it and of each element do not raise.
Key: <ExceptionClass>@<parse|dbml|sql>:<innermost pydbml function in the traceback>.
"""
from __future__ import annotations

import random
import re
from typing import Any, List, Optional, Tuple

from lib.bounded import BObl
from bounded._text_models import (tuples_upto, strings_upto, no_internal_error, lit_single, lit_double,
                                  lit_triple, seed_documents)

# =========================================================================== C08.B.soup

TOP = ['Table', 'Ref', 'Enum', 'Note', 'indexes', 'Project', 'TableGroup', 'a', '"a b"', "'x'", "'''", '`',
       '{', '}', '[', ']', '(', ')', ':', '.', ',', '>', '\n', '//c']

INNER = ['a', '"a b"', '"a.b.c"', "'x'", "' '", "'''", '`', '`x`', '{', '}', '[', ']', ':', '.', ',', '\n', '//c',
         'int', 'pk', 'default:', 'note:', '1', 'Note', 'name:']

# context -> (prefix, suffix, allow_properties)
CONTEXTS = {
    'top':              ('', '', False),
    'table_body':       ('Table a {\n a int\n ', '\n}', False),
    'table_body_props': ('Table a {\n a int\n ', '\n}', True),
    'col_settings':     ('Table a {\n a int [', ']\n}', False),
    'col_settings_props': ('Table a {\n a int [', ']\n}', True),
    'col_type':         ('Table a {\n a ', '\n}', False),
    'index_body':       ('Table a {\n a int\n indexes {\n ', '\n }\n}', False),
    'index_settings':   ('Table a {\n a int\n indexes {\n a [', ']\n }\n}', False),
    'enum_body':        ('Enum e {\n a\n ', '\n}', False),
    'project_body':     ('Project p {\n ', '\n}', False),
    'note_body':        ('Note n {\n ', '\n}', False),
}
CONTEXT_NAMES = list(CONTEXTS)


def soup_text(recipe) -> Tuple[str, bool]:
    ctx, idx = recipe
    pre, suf, props = CONTEXTS[ctx]
    alpha = TOP if ctx == 'top' else INNER
    return pre + ' '.join(alpha[i] for i in idx) + suf, props


class TokenSoup(BObl):
    id = 'C08.B.soup'
    property = 'C08'
    rule = ('every sequence of symbols (joined by one space) over a DBML token alphabet is parsed with the real '
            'PyDBML(text): at top level over 24 symbols, and inside 10 syntactic contexts (table body, column '
            'settings, both also with allow_properties, column type, index body, index settings, enum body, project '
            'body, sticky-note body) over 24 symbols; non-trivial = at least one symbol; distinct = distinct sequence')
    bound = ('exhaustive: top level length <= 3 (14 425) quick / <= 4 (346 201) thorough; each context length <= 2 '
             '(601 x 10) quick / <= 3 (14 425 x 10) thorough')
    chunk = 128
    budget = {'quick': 28.0, 'thorough': 580.0}

    def exhaustive(self, tier):
        return True

    def cases(self, tier, seed):
        n_top, n_in = (3, 2) if tier == 'quick' else (4, 3)
        for ctx in CONTEXT_NAMES:
            if ctx == 'top':
                for idx in tuples_upto(len(TOP), n_top):
                    yield [ctx, idx]
            else:
                for idx in tuples_upto(len(INNER), n_in):
                    yield [ctx, idx]

    def nontrivial(self, recipe):
        return len(recipe[1]) > 0

    def check(self, recipe):
        text, props = soup_text(recipe)
        return no_internal_error(text, allow_properties=props)


# =========================================================================== C08.B.fills

FILL_ALPHABET = ['a', ' ', '\n', "'", '"', '\\', '`', '{', '}', '.', '(', ')']


def q_dq(s):        # identifier / quoted type: the only quoting DBML has for names
    return '"' + s + '"'


def q_sq(s):        # free text, properly escaped, style chosen by content
    return lit_triple(s) if '\n' in s else lit_single(s)


def q_dqs(s):       # free text in the double-quoted style
    return lit_triple(s) if '\n' in s else lit_double(s)


def q_tq(s):
    return lit_triple(s)


def q_sq_raw(s):    # unescaped: the document is arbitrary
    return "'" + s + "'"


def q_bt(s):
    return '`' + s + '`'


def q_raw(s):
    return s


QUOTERS = {'dq': q_dq, 'sq': q_sq, 'dqs': q_dqs, 'tq': q_tq, 'sq_raw': q_sq_raw, 'bt': q_bt, 'raw': q_raw}

_T2 = 'Table u {\n  id int [pk]\n  x int\n}\n'

# site -> (template with § for the quoted fill, quoters, allow_properties)
FILL_SITES = {
    # ---- identifier sites
    'table_name': ('Table § [headercolor: #fff] {\n  id int [pk]\n  y int [ref: > u.id]\n}\n' + _T2 +
                   'Ref r1: u.x > §.id\nRef: §.(id, y) <> u.(id, x)\nTableGroup g {\n  §\n  u\n}\n', ['dq'], False),
    'schema_name': ('Table §.t {\n  id int [pk]\n  y e\n  z §.e\n}\nEnum §.e {\n  a\n}\n' + _T2 +
                    'Ref: §.t.id < u.x\nRef: u.id <> §.t.y\nTableGroup g {\n  §.t\n}\n', ['dq'], False),
    'alias': ('Table t as § {\n  id int [pk]\n}\n' + _T2 + 'Ref: §.id > u.id\nTableGroup g {\n  §\n}\n', ['dq'], False),
    'column_name': ('Table t {\n  § int [pk, note: \'n\']\n  b int [ref: - u.id]\n  indexes {\n    §\n    (§, b) [unique]\n'
                    '    (b, §) [pk]\n  }\n}\n' + _T2 + 'Ref: t.§ > u.x\nRef r2: t.(§, b) <> u.(id, x)\n', ['dq'], False),
    'ref_target_column': ('Table t {\n  § int\n}\nTable v {\n  id int [ref: > t.§]\n  w int [ref: < t.§]\n}\n', ['dq'], False),
    'column_type': ('Enum e {\n  a\n}\nTable t {\n  c § [not null]\n  d §\n  indexes {\n    c\n  }\n}\n', ['dq', 'raw'], False),
    'type_args': ('Table t {\n  c varchar(§) [pk]\n  d int\n}\n', ['raw'], False),
    'enum_name': ('Enum § {\n  a [note: \'n\']\n  b\n}\nTable t {\n  c § [not null]\n}\n', ['dq'], False),
    'enum_item': ('Enum e {\n  § [note: \'n\']\n  b\n}\nTable t {\n  c e [default: §]\n}\n', ['dq'], False),
    'ref_name': (_T2 + 'Table t {\n  id int\n  y int\n}\nRef §: t.id > u.id\nRef § {\n  t.y <> u.x\n}\n', ['dq'], False),
    'group_name': (_T2 + 'TableGroup § [color: #fff, note: \'n\'] {\n  u\n}\n', ['dq'], False),
    'project_name': ('Project § {\n  k: \'v\'\n  Note: \'n\'\n}\n' + _T2, ['dq'], False),
    'sticky_note_name': ('Note § {\n  \'text\'\n}\n' + _T2, ['dq'], False),
    'property_name': ('Table t {\n  c int [§: \'v\']\n  §: \'w\'\n}\n', ['dq'], True),
    # ---- free-text sites
    'table_note_setting': ('Table t [note: §] {\n  c int\n}\n', ['sq', 'dqs', 'tq', 'sq_raw'], False),
    'table_note_body': ('Table t {\n  c int\n  Note: §\n}\n', ['sq', 'dqs', 'tq'], False),
    'table_note_object': ('Table t {\n  c int\n  Note {\n    §\n  }\n}\n', ['sq', 'tq'], False),
    'column_note': ('Table t {\n  c int [pk, note: §, unique]\n  d int\n}\n', ['sq', 'dqs', 'tq', 'sq_raw'], False),
    'index_note': ('Table t {\n  c int\n  indexes {\n    c [note: §, unique]\n    (c) [pk, note: §]\n  }\n}\n', ['sq', 'tq'], False),
    'enum_item_note': ('Enum e {\n  a [note: §]\n  b\n}\n', ['sq', 'tq'], False),
    'group_note': (_T2 + 'TableGroup g [note: §] {\n  u\n}\nTableGroup h {\n  u\n  Note: §\n}\n', ['sq', 'tq'], False),
    'project_note': ('Project p {\n  Note: §\n}\nProject q {\n  Note {\n    §\n  }\n}\n', ['sq', 'tq'], False),
    'sticky_note_text': ('Note n {\n  §\n}\n', ['sq', 'dqs', 'tq', 'sq_raw'], False),
    'project_field': ('Project p {\n  k: §\n  l: \'v\'\n}\n', ['sq', 'dqs', 'tq', 'sq_raw'], False),
    'table_property': ('Table t {\n  c int\n  k: §\n  l: \'v\'\n}\n', ['sq', 'tq'], True),
    'column_property': ('Table t {\n  c int [k: §, pk]\n  d int [note: \'n\', l: §]\n}\n', ['sq', 'tq'], True),
    'string_default': ('Table t {\n  c varchar [default: §, not null]\n  d int\n}\n', ['sq', 'dqs', 'tq', 'sq_raw'], False),
    'index_name': ('Table t {\n  c int\n  indexes {\n    c [name: §, type: hash]\n    (c, `c`) [name: §, unique]\n  }\n}\n',
                   ['sq', 'dqs', 'tq'], False),
    # ---- expressions and comments (raw text)
    'expr_default': ('Table t {\n  c int [default: §]\n  d int\n}\n', ['bt'], False),
    'expr_index': ('Table t {\n  c int\n  indexes {\n    §\n    (c, §) [unique]\n  }\n}\n', ['bt'], False),
    'table_comment': ('// §\nTable t {\n  c int // §\n  // §\n  d int [pk] // §\n}\n/* § */\nEnum e {\n  // §\n  a // §\n}\n',
                      ['raw'], False),
    'ref_comment': (_T2 + 'Table t {\n  id int [ref: > u.id] // §\n  y int\n}\n// §\nRef r: t.y > u.x // §\n'
                    '// §\nRef {\n  t.y <> u.x [delete: cascade] // §\n}\n', ['raw'], False),
    'index_comment': ('Table t {\n  c int\n  indexes {\n    // §\n    c [unique] // §\n    (c) [pk] // §\n  }\n}\n', ['raw'], False),
    'group_project_comment': (_T2 + '// §\nTableGroup g {\n  u // §\n}\n// §\nProject p {\n  k: \'v\' // §\n}\n', ['raw'], False),
}
FILL_SITE_NAMES = list(FILL_SITES)

_TBL = 'Table t {\n  c int\n}\n'
SPECIALS = [
    '', ' ', '\n', '\n\n\n', '\t \n ', '\r\n', '\ufeff', '\ufeff\ufeff', '\ufeff' + _TBL, '\ufeff\ufeff' + _TBL,
    _TBL + '\ufeff', '// c', '// c\n', '/* c */', '/* c', '//', '/**/', '// c\n// d\n\n/* e\nf */\n',
    "Table t {\n  c int [note: ' ']\n}\n", "Table t {\n  c int [note: '']\n}\n", "Table t {\n  c int\n  Note: '  '\n}\n",
    "Table t {\n  c int\n  Note: '''\n\n   \n'''\n}\n", "Table t {\n  c int\n  Note {\n '\t' \n}\n}\n", "Note n {\n  ' '\n}\n",
    "Note n {\n  '''\n  \n'''\n}\n", "Enum e {\n  a [note: ' ']\n}\n", "Project p {\n  Note: ' '\n}\n",
    _TBL + "TableGroup g [note: ' '] {\n  t\n}\n", "Table t {\n  c int\n  indexes {\n    c [note: ' ']\n  }\n}\n",
    'Table t {\n  c "a.b.c"\n}\n', 'Table t {\n  c "a.b"\n}\n', 'Table t {\n  c "."\n}\n', 'Table t {\n  c ".."\n}\n',
    'Table t {\n  c a.b\n}\n', 'Table t {\n  c "a.b".c\n}\n', 'Table t {\n  c a."b.c"\n}\n', 'Table t {\n  c ""\n}\n',
    'Table "" {\n  "" ""\n}\n', 'Table t {\n  c int(\n}\n', 'Table t {\n  c int((((((((((1))))))))))\n}\n',
    'Table "{" {\n  "}" int [pk]\n}\n', 'Table "{c}" {\n  "{c}" int [pk]\n  b int\n}\nRef "{c}": "{c}"."{c}" > "{c}".b\n',
    'Table t {\n  a int\n  b int\n}\n// {}\nRef: t.a > t.b\n', 'Table t {\n  a int\n  b int\n}\n// {0}\nRef: t.a <> t.b\n',
    'Table t {\n  a int [ref: > t.b] // {x}\n  b int\n}\n',
    'Table t {\n  a int\n  b int\n}\n// {x}\nRef: t.a > t.b\n', 'Table t {\n  a int\n  b int\n}\nRef: t.a <> t.b // {x}\n',
    'Table "{x}" {\n  a int [pk]\n  b int [ref: > "{x}".a]\n}\n', 'Table t {\n  "{x}" int [pk]\n  b int\n}\nRef: t.b > t."{x}"\n', 'Table t {\n}\n', 'Table t {\n  indexes {\n    a\n  }\n}\n',
    'Table t {\n  c int\n}\nTable t {\n  c int\n}\n', 'Enum e {\n  a\n}\nEnum e {\n  a\n}\n', 'Project p {\n}\nProject q {\n}\n',
    'Table t {\n  c int\n  c int\n}\n', _TBL + 'TableGroup g {\n  t\n  t\n}\n', _TBL + 'TableGroup g {\n  t\n}\nTableGroup h {\n  t\n}\n',
    _TBL + 'Ref: t.c > t.c\nRef: t.c > t.c\n', _TBL + 'Ref: t.c > t.(c, c)\n', _TBL + 'Ref: t.() > t.c\n',
    'Table t {\n  c int [default: 1.]\n}\n', 'Table t {\n  c int [default: 00.10]\n}\n', 'Table t {\n  c int [default: NULL]\n}\n',
    'Table t {\n  c int [default: TrUe]\n}\n', 'Table t {\n  c int [default: nUlL, null, not null]\n}\n',
    'Table t {\n  c int [pk]\n  d int [pk]\n  indexes {\n    (c, d) [pk]\n  }\n}\n', 'Table a.b.c {\n  c int\n}\n',
    'Table t as t {\n  c int\n}\n', 'Table t as u {\n  c int\n}\nTable u {\n  c int\n}\n',
]


def fill_text(recipe) -> Tuple[str, bool]:
    site, quoter, s = recipe
    if site == 'special':
        return SPECIALS[s], bool(quoter)
    tmpl, _, props = FILL_SITES[site]
    return tmpl.replace('§', QUOTERS[quoter](s)), props


class TemplateFills(BObl):
    id = 'C08.B.fills'
    property = 'C08'
    rule = ('34 well-formed template documents (each parses and renders with the fill a); every identifier, quoted type, '
            'type-argument, free-text, expression and comment site is filled with every short string, quoted as the site '
            'requires (names and types in "…"; text as properly escaped \'…\' / "…" / \'\'\'…\'\'\' and also unescaped; '
            'expressions in back-ticks; comments raw), the same fill at definition and use of a name; plus a fixed list '
            'of 70 special documents (empty, blank, BOM, comment-only, blank notes at every note site, dotted and empty '
            'quoted types, names made of braces, duplicate definitions); non-trivial = non-empty document')
    bound = ('exhaustive: fills of length <= 2 over {a, space, newline, \', ", \\, `, {, }, ., (, )} (157 strings); quick tier: '
             'alternative literal styles of a site only with fills of length <= 1')
    chunk = 32
    budget = {'quick': 25.0, 'thorough': 120.0}

    def exhaustive(self, tier):
        return True

    def cases(self, tier, seed):
        for i in range(len(SPECIALS)):
            yield ['special', 0, i]
            yield ['special', 1, i]
        fills = list(strings_upto(FILL_ALPHABET, 2))
        short = list(strings_upto(FILL_ALPHABET, 1))
        for site in FILL_SITE_NAMES:
            for k, quoter in enumerate(FILL_SITES[site][1]):
                # quick: the site's first (canonical) quoting takes every fill, the alternative styles length <= 1
                for s in (short if (tier == 'quick' and k > 0) else fills):
                    yield [site, quoter, s]

    def nontrivial(self, recipe):
        return fill_text(recipe)[0] != ''

    def check(self, recipe):
        text, props = fill_text(recipe)
        return no_internal_error(text, allow_properties=props)


# =========================================================================== C08.B.mutations

_TOKEN = re.compile(r"'''|//[^\n]*|/\*|\*/|\"[^\"\n]*\"|'[^'\n]*'|`[^`\n]*`|\w+:?|\n|[ \t]+|.", re.S)
MUT_VOCAB = sorted(set(TOP + INNER + ['Table', 'as', 'null', 'not null', 'unique', 'increment', 'headercolor:', 'type:',
                                      'btree', 'delete:', 'cascade', '<', '-', '<>', '/*', '*/', '"', "'", '\\', '//',
                                      '\ufeff', '{x}', '"a.b.c"', "' '", 'é']))
MUT_CHARS = ['a', ' ', '\n', "'", '"', '\\', '`', '{', '}', '[', ']', '(', ')', ':', '.', ',', '/', '*', '#', '<', '>',
             '-', '\t', '\r', '\ufeff', 'é', '0']
MUT_OPS = ['del', 'dup', 'swap', 'ins', 'rep']


def apply_mutations(text: str, level: str, ops) -> str:
    items = _TOKEN.findall(text) if level == 'tok' else list(text)
    vocab = MUT_VOCAB if level == 'tok' else MUT_CHARS
    for op, pos, arg in ops:
        n = len(items)
        if n == 0:
            items = [vocab[arg % len(vocab)]]
            continue
        i = pos % n
        if op == 'del':
            del items[i]
        elif op == 'dup':
            items.insert(i, items[i])
        elif op == 'swap':
            j = (i + 1 + arg % 3) % n
            items[i], items[j] = items[j], items[i]
        elif op == 'ins':
            items.insert(i, vocab[arg % len(vocab)])
        elif op == 'rep':
            items[i] = vocab[arg % len(vocab)]
    return ''.join(items)


class Mutations(BObl):
    id = 'C08.B.mutations'
    property = 'C08'
    rule = ('each case takes one of the repository\'s documents (test/test_data/*.dbml, test/test_data/docs/*.dbml, '
            'test_schema.dbml, DBML chunks of docs/*.md and README.md) and applies 1-3 seeded mutations (delete, '
            'duplicate, swap, insert, replace) at token level (lexical tokens; inserted tokens from an 80-symbol '
            'vocabulary) or character level (27 critical characters); the outcome contract is evaluated on the mutant, '
            'with and without allow_properties; non-trivial = mutant differs from the source document')
    bound = 'sampled: 3 000 mutants quick, 100 000 thorough, drawn with random.Random(seed); not exhaustive'
    chunk = 16
    budget = {'quick': 25.0, 'thorough': 540.0}

    def cases(self, tier, seed):
        rnd = random.Random(seed * 7919 + 13)
        docs = seed_documents()
        n = 3000 if tier == 'quick' else 100000
        for k in range(n):
            d = k % len(docs)
            level = 'tok' if rnd.random() < 0.6 else 'chr'
            ops = [[rnd.choice(MUT_OPS), rnd.randrange(1 << 16), rnd.randrange(1 << 16)]
                   for _ in range(rnd.choice((1, 1, 2, 3)))]
            yield {'doc': docs[d][0], 'level': level, 'ops': ops, 'props': rnd.random() < 0.3}

    def _text(self, recipe) -> Tuple[str, str]:
        src = dict(seed_documents())[recipe['doc']]
        return src, apply_mutations(src, recipe['level'], recipe['ops'])

    def nontrivial(self, recipe):
        src, mut = self._text(recipe)
        return src != mut

    def check(self, recipe):
        _, mut = self._text(recipe)
        r = no_internal_error(mut, allow_properties=bool(recipe.get('props')))
        if r is None:
            return None
        key, msg = r
        return key, f'mutant of {recipe["doc"]} ({recipe["level"]} {recipe["ops"]}): {msg}'


OBLIGATIONS = [TokenSoup(), TemplateFills(), Mutations()]
