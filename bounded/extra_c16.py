"""C16 extra: elements that are falsy (a sticky note with empty text, an empty note) still appear
exactly once in the database-level text."""
from __future__ import annotations

from lib.bounded import BObl


class FalsyElements(BObl):
    id = 'C16.B.falsy-elements'
    property = 'C16'
    rule = 'fixed family of databases holding sticky notes with empty text next to ordinary elements; each element text is one of the blank-line separated pieces exactly once'
    bound = 'exhaustive over the fixed family (position of the empty note x number of notes)'

    def cases(self, tier, seed):
        for n in (1, 2, 3):
            for pos in range(n):
                for parsed in (False, True):
                    yield {'n': n, 'empty_at': pos, 'parsed': parsed}

    def exhaustive(self, tier):
        return True

    def check(self, r):
        from pydbml import PyDBML, Database
        from pydbml.classes import Table, Column, StickyNote
        if r['parsed']:
            src = 'Table t {\n id int\n}\n' + ''.join(
                f"Note n{i} {{\n  '{'' if i == r['empty_at'] else 'x' + str(i)}'\n}}\n" for i in range(r['n']))
            try:
                db = PyDBML(src)
            except Exception as e:
                return ('rejected:' + type(e).__name__, src)
        else:
            db = Database()
            db.add(Table('t', columns=[Column('id', 'int')]))
            for i in range(r['n']):
                db.add(StickyNote(f'n{i}', '' if i == r['empty_at'] else f'x{i}'))
        text = db.dbml
        pieces = text.split('\n\n')
        for n in db.sticky_notes:
            own = n.dbml
            if pieces.count(own) != 1:
                return ('sticky-note-piece-count', f'{own!r} appears {pieces.count(own)} times in\n{text}')
        if pieces.count(db.tables[0].dbml) != 1:
            return ('table-piece-count', text)
        return None


OBLIGATIONS = [FalsyElements()]


class SubclassedDefault(BObl):
    id = 'C16.B.subclassed-default'
    property = 'C16'
    rule = ('the configured renderer is a subclass of a default renderer with its own handler table (one element kind '
            'overridden by a marker, or `render` overridden); database-level and element-level texts must both come '
            'from the subclass: the marker appears in db text once per element of that kind')
    bound = 'exhaustive: {sql, dbml} x overridden kind x {own registry, overridden render} x {constructor, parser} route'

    def cases(self, tier, seed):
        for lang in ('sql', 'dbml'):
            for kind in ('Table', 'Enum', 'Reference'):
                for how in ('registry', 'render'):
                    for route in ('ctor', 'parser'):
                        yield {'lang': lang, 'kind': kind, 'how': how, 'route': route}

    def exhaustive(self, tier):
        return True

    def check(self, r):
        import pydbml.classes as C
        from pydbml import PyDBML, Database
        from pydbml.renderer.sql.default import DefaultSQLRenderer
        from pydbml.renderer.dbml.default import DefaultDBMLRenderer
        base = DefaultSQLRenderer if r['lang'] == 'sql' else DefaultDBMLRenderer
        kind = getattr(C, r['kind'])
        marker = f'<<{r["kind"]}-by-subclass>>'
        if r['how'] == 'registry':
            class Sub(base):
                model_renderers = dict(base.model_renderers)
            Sub.model_renderers[kind] = lambda model: marker
        else:
            class Sub(base):
                @classmethod
                def render(cls, model):
                    if type(model) is kind:
                        return marker
                    return super().render(model)
        src = ('Enum e {\n a\n b\n}\nTable t {\n id int [pk]\n k e\n}\nTable u {\n id int\n tid int\n}\n'
               'Ref: u.tid > t.id\n')
        kw = {'sql_renderer': Sub} if r['lang'] == 'sql' else {'dbml_renderer': Sub}
        if r['route'] == 'parser':
            db = PyDBML(src, **kw)
        else:
            parsed = PyDBML(src)
            db = Database(**kw)
            for e in parsed.enums:
                parsed_e = e
            # rebuild through the public API
            from pydbml.classes import Table, Column, Enum, EnumItem, Reference
            en = Enum('e', [EnumItem('a'), EnumItem('b')])
            t = Table('t', columns=[Column('id', 'int', pk=True), Column('k', en)])
            u = Table('u', columns=[Column('id', 'int'), Column('tid', 'int')])
            db.add(en), db.add(t), db.add(u)
            db.add(Reference('>', u['tid'], t['id']))
        text = getattr(db, r['lang'])
        elems = {'Table': db.tables, 'Enum': db.enums, 'Reference': db.refs}[r['kind']]
        for e in elems:
            if getattr(e, r['lang']) != marker:
                return (f'element-not-through-configured:{r["lang"]}:{r["kind"]}', repr(getattr(e, r['lang']))[:300])
        if text.count(marker) != len(elems):
            return (f'db-not-through-configured:{r["lang"]}:{r["kind"]}:{r["how"]}',
                    f'marker appears {text.count(marker)} times, {len(elems)} elements:\n{text[:500]}')
        return None


OBLIGATIONS.append(SubclassedDefault())
