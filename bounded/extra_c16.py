"""C16 extra: elements that are falsy (a sticky note with empty text, an empty note) still appear
exactly once in the database-level text."""
from __future__ import annotations

from lib.bounded import BObl


class FalsyElements(BObl):
    id = 'C16.B.falsy-elements'
    property = 'C16'
    rule = 'fixed family of databases holding sticky notes with empty text next to ordinary elements; each element text is one of the blank-line separated pieces exactly once'
    bound = 'exhaustive over the fixed family (position of the empty note x number of notes)'

    def cases(self, tier, seed):
        for n in (1, 2, 3):
            for pos in range(n):
                for parsed in (False, True):
                    yield {'n': n, 'empty_at': pos, 'parsed': parsed}

    def exhaustive(self, tier):
        return True

    def check(self, r):
        from pydbml import PyDBML, Database
        from pydbml.classes import Table, Column, StickyNote
        if r['parsed']:
            src = 'Table t {\n id int\n}\n' + ''.join(
                f"Note n{i} {{\n  '{'' if i == r['empty_at'] else 'x' + str(i)}'\n}}\n" for i in range(r['n']))
            try:
                db = PyDBML(src)
            except Exception as e:
                return ('rejected:' + type(e).__name__, src)
        else:
            db = Database()
            db.add(Table('t', columns=[Column('id', 'int')]))
            for i in range(r['n']):
                db.add(StickyNote(f'n{i}', '' if i == r['empty_at'] else f'x{i}'))
        text = db.dbml
        pieces = text.split('\n\n')
        for n in db.sticky_notes:
            own = n.dbml
            if pieces.count(own) != 1:
                return ('sticky-note-piece-count', f'{own!r} appears {pieces.count(own)} times in\n{text}')
        if pieces.count(db.tables[0].dbml) != 1:
            return ('table-piece-count', text)
        return None


OBLIGATIONS = [FalsyElements()]
