"""C13 — free text survives.  Bounded run-time contracts on the real code.

C13.B.norm    note / sticky-note normalisation (real `_preformat_text`) on all short strings
C13.B.styles  the three string-literal styles of the same text store the same text
C13.B.sites   text at each of the 12 text-bearing sites survives `.dbml` -> parse, nothing else changes
C13.B.sql     note text sits in one single-quoted SQL literal, expression text is verbatim in parentheses
"""
from __future__ import annotations

import copy
import re
from typing import Any, List, Optional, Tuple

from lib.bounded import BObl
from bounded._text_models import (strings_upto, norm_spec, is_normal, norm_contract, is_blank,
                                  class_label, label_classes, without_label_class, lit_single, lit_double, lit_triple,
                                  exc_line, split_sql_statements, read_sql_literal, sql_text_canon,
                                  innermost_pydbml_function)


def _short(x: Any, n: int = 160) -> str:
    s = repr(x)
    return s if len(s) <= n else s[:n] + '…'


# =========================================================================== C13.B.norm

class NoteNormalisation(BObl):
    id = 'C13.B.norm'
    property = 'C13'
    rule = ('every string over {a, space, tab, newline} up to the length bound is given to the real '
            'NoteBlueprint._preformat_text and StickyNoteBlueprint._preformat_text; a case is non-trivial '
            'when the string is non-empty; distinct = distinct string')
    bound = 'exhaustive: length <= 7 (21 845 strings) quick, <= 9 (349 525 strings) thorough; alphabet of 4 characters'
    chunk = 1024
    budget = {'quick': 25.0, 'thorough': 400.0}
    ALPHABET = ['a', ' ', '\t', '\n']

    def exhaustive(self, tier):
        return True

    def cases(self, tier, seed):
        n = 7 if tier == 'quick' else 9
        yield from strings_upto(self.ALPHABET, n)

    def nontrivial(self, recipe):
        return recipe != ''

    def check(self, t):
        from pydbml.parser.blueprints import NoteBlueprint, StickyNoteBlueprint
        for label, make in (('note', lambda s: NoteBlueprint(s)),
                            ('sticky', lambda s: StickyNoteBlueprint(name='n', text=s))):
            try:
                r = make(t)._preformat_text()
            except Exception as e:
                if t.strip() == '' and t != '':
                    return ('whitespace-only-crash',
                            f'normalising white-space-only text must not raise; {label}: _preformat_text({t!r}) '
                            f'raised {exc_line(e)} in {innermost_pydbml_function(e)}')
                return (f'crash:{type(e).__name__}',
                        f'{label}: _preformat_text({t!r}) raised {exc_line(e)}')
            if not isinstance(r, str):
                return ('not-a-string', f'{label}: _preformat_text({t!r}) returned {_short(r)}')
            if t.strip() == '':
                # no non-blank line: nothing is promised beyond "no text is invented" and idempotence
                if r.strip() != '':
                    return ('invented-text', f'{label}: _preformat_text({t!r}) = {r!r} contains text')
            else:
                why = norm_contract(t, r)
                if why:
                    return ('normal-form', f'{label}: _preformat_text({t!r}) = {r!r}: {why}; '
                                           f'expected {norm_spec(t)!r}')
            try:
                r2 = make(r)._preformat_text()
            except Exception as e:
                if r.strip() == '' and r != '':
                    return ('whitespace-only-crash', f'{label}: second normalisation of {r!r} raised {exc_line(e)}')
                return ('not-idempotent', f'{label}: normalising the result {r!r} of {t!r} again raised {exc_line(e)}')
            if r2 != r:
                return ('not-idempotent', f'{label}: norm({t!r}) = {r!r} but norm of that = {r2!r}')
        return None


# =========================================================================== C13.B.styles

def _stored_table_note(literal: str) -> Tuple[Optional[str], Optional[str]]:
    """Parse a one-table document whose note is the given literal; (stored text, error)."""
    from pydbml import PyDBML
    doc = 'Table t {\n  c int\n  Note: ' + literal + '\n}\n'
    try:
        db = PyDBML(doc)
        return db.tables[0].note.text, None
    except Exception as e:
        return None, exc_line(e)


def _stored_table_notes(literals: List[str]) -> Optional[List[str]]:
    """All literals in one document (one table each); None if that document does not parse."""
    from pydbml import PyDBML
    doc = ''.join(f'Table t{k} {{\n  c int\n  Note: {lit}\n}}\n' for k, lit in enumerate(literals))
    try:
        db = PyDBML(doc)
        if len(db.tables) != len(literals):
            return None
        return [t.note.text for t in db.tables]
    except Exception:
        return None


class LiteralStyles(BObl):
    id = 'C13.B.styles'
    property = 'C13'
    rule = ("text T is written as '…', \"…\" (T single-line) and '''…''' with the delimiter and the backslash "
            "backslash-escaped, as `Note: <literal>` of a table; the stored texts must be identical and equal to "
            "the normal form of T; white-space-only T is left to C13.B.norm; non-trivial = T non-empty")
    bound = ("exhaustive: T of length <= 4 over {a, space, ', \", \\, `} in three styles (1 555 texts) plus every T of "
             "length <= 4 over the same alphabet with newline that contains a newline, triple style only (1 246 texts); "
             "same in both tiers")
    chunk = 32
    budget = {'quick': 25.0, 'thorough': 120.0}
    ALPHABET = ['a', ' ', "'", '"', '\\', '`']

    def exhaustive(self, tier):
        return True

    def cases(self, tier, seed):
        for t in strings_upto(self.ALPHABET, 4):
            if t == '' or t.strip() != '':
                yield t
        for t in strings_upto(self.ALPHABET + ['\n'], 4):
            if '\n' in t and t.strip() != '':
                yield t

    def nontrivial(self, t):
        return t != ''

    def check(self, t):
        styles = [('triple', lit_triple(t))]
        if '\n' not in t:
            styles = [('single', lit_single(t)), ('double', lit_double(t))] + styles
        want = norm_spec(t)
        got = _stored_table_notes([lit for _, lit in styles])
        if got is not None:
            got = {name: text for (name, _), text in zip(styles, got)}
        else:
            got = {}
            for name, lit in styles:
                text, err = _stored_table_note(lit)
                if err is not None:
                    return (f'rejected:{name}:{class_label(t)}',
                            f'properly escaped {name}-style literal {lit!r} of text {t!r} must parse; observed {err}')
                got[name] = text
        if len(set(got.values())) > 1:
            return (f'styles-differ:{class_label(t)}',
                    f'the same text {t!r} is stored differently depending on the literal style: {got!r}')
        stored = next(iter(got.values()))
        if stored != want:
            return (f'stored-not-normal-form:{class_label(t)}',
                    f'text {t!r} written as {styles[-1][1]!r} is stored as {stored!r}; expected its normal form {want!r}')
        return None


# =========================================================================== C13.B.sites

SITE_BASE = {
    'allow_properties': True,
    'project': {'name': 'p', 'items': [['k1', 'v1'], ['k2', 'v2']], 'note': 'pn'},
    'enums': [{'name': 'e', 'items': [{'name': 'i1', 'note': 'in1'}, {'name': 'i2', 'note': 'in2'}]}],
    'tables': [{
        'name': 't', 'note': 'tn', 'properties': [['tp1', 'tv1'], ['tp2', 'tv2']],
        'columns': [
            {'name': 'c1', 'type': 'int', 'note': 'cn1', 'default': {'kind': 'str', 'value': 'd1'},
             'properties': [['cp1', 'cv1'], ['cp1b', 'cv1b']]},
            {'name': 'c2', 'type': 'int', 'note': 'cn2', 'default': {'kind': 'str', 'value': 'd2'},
             'properties': [['cp2', 'cv2']]}],
        'indexes': [{'subjects': [{'col': 'c1'}], 'name': 'x1', 'note': 'xn1'},
                    {'subjects': [{'col': 'c2'}], 'name': 'x2', 'note': 'xn2'}]}],
    'table_groups': [{'name': 'g', 'items': [['public', 't']], 'note': 'gn'}],
    'sticky_notes': [{'name': 's1', 'text': 'st1'}, {'name': 's2', 'text': 'st2'}],
}

# site -> (is note site, path into the normalised abstract model)
SITES = {
    'table_note':      (True,  ['tables', 0, 'note']),
    'column_note':     (True,  ['tables', 0, 'columns', 0, 'note']),
    'index_note':      (True,  ['tables', 0, 'indexes', 0, 'note']),
    'enum_item_note':  (True,  ['enums', 0, 'items', 0, 'note']),
    'table_group_note': (True, ['table_groups', 0, 'note']),
    'project_note':    (True,  ['project', 'note']),
    'sticky_note':     (True,  ['sticky_notes', 0, 'text']),
    'project_field':   (False, ['project', 'items', 0, 1]),
    'table_property':  (False, ['tables', 0, 'properties', 0, 1]),
    'column_property': (False, ['tables', 0, 'columns', 0, 'properties', 0, 1]),
    'string_default':  (False, ['tables', 0, 'columns', 0, 'default', 'value']),
    'index_name':      (False, ['tables', 0, 'indexes', 0, 'name']),
}
# top-level kinds kept for a site: the element holding the site, the element rendered after it and one before it
SITE_KEEP = {
    'table_note': ('enums', 'tables', 'table_groups'), 'column_note': ('enums', 'tables', 'table_groups'),
    'index_note': ('tables', 'table_groups'), 'index_name': ('tables', 'table_groups'),
    'table_property': ('tables', 'table_groups'), 'column_property': ('enums', 'tables', 'table_groups'),
    'string_default': ('enums', 'tables', 'table_groups'),
    'enum_item_note': ('project', 'enums', 'tables'),
    'table_group_note': ('tables', 'table_groups', 'sticky_notes'),
    'project_note': ('project', 'enums'), 'project_field': ('project', 'enums'),
    'sticky_note': ('tables', 'sticky_notes'),
}
SITE_NAMES = list(SITES)
SITE_ALPHABET = ['a', ' ', '\n', "'", '"', '\\', '`']
CARRIED = ['{', '}', '[', ']', '#', '//', '/*', '*/', 'é']


def _get(m, path):
    for p in path:
        m = m[p]
    return m


def _set(m, path, v):
    for p in path[:-1]:
        m = m[p]
    m[path[-1]] = v


def site_domain(site: str, t: str) -> bool:
    if t == '':
        return False
    if SITES[site][0]:
        return is_normal(t)
    return True


def run_site(site: str, t: str) -> Optional[Tuple[str, str]]:
    """Put `t` at `site`, render DBML, parse back, evaluate the contract.  None or (mode, message)."""
    from pydbml import PyDBML
    from spec.model import build_api, view, normalize, diff
    is_note, path = SITES[site]
    m = {k: copy.deepcopy(v) for k, v in SITE_BASE.items() if k == 'allow_properties' or k in SITE_KEEP[site]}
    m = normalize(m)
    _set(m, path, t)
    db = build_api(m)
    before = normalize(view(db))
    try:
        text = db.dbml
    except Exception as e:
        return 'render-error', f'Database.dbml raised {exc_line(e)} in {innermost_pydbml_function(e)}'
    try:
        db2 = PyDBML(text, allow_properties=True)
    except Exception as e:
        where = ''
        ln = getattr(e, 'lineno', None)
        if isinstance(ln, int) and 1 <= ln <= text.count('\n') + 1:
            where = f'; rendered line {ln}: {text.split(chr(10))[ln - 1].strip()[:80]!r}'
        return 'reparse-error', f'the rendered DBML does not parse back: {exc_line(e)[:120]}{where}'
    after = normalize(view(db2))
    try:
        got = _get(after, path)
    except (KeyError, IndexError, TypeError):
        got = '<site missing>'
    want = _get(before, path)
    if got != want:
        return 'text-differs', f'stored text at the site after the round trip is {_short(got)}, expected {_short(want)}'
    _set(before, path, None)
    _set(after, path, None)
    if before != after:
        return 'neighbour-changed', ('text at the site survived but other fields changed: '
                                     + '; '.join(diff(before, after)[:3]))
    return None


# fixed single-class probe texts (all inside the quick domain); a class "fails at a site" iff one of them does
PROBE_TEXTS = {
    'backslash': ['\\', 'a\\a'], 'triple-quote': ["'''"], 'single-quote': ["'", "a'a"], 'newline': ['a\na', '\n'],
    'double-quote': ['"', 'a"a'], 'backtick': ['`'], 'brace': ['ab{cd', 'ab}cd'], 'bracket': ['ab[cd', 'ab]cd'],
    'hash': ['ab#cd'], 'comment-marker': ['ab//cd', 'ab/*cd', 'ab*/cd'], 'non-ascii': ['abécd'],
    'blank': [' '], 'other': ['a', 'a a'],
}
_PROBE_MEMO = {}


def probe_fails(site: str, cls: str) -> bool:
    k = (site, cls)
    if k not in _PROBE_MEMO:
        _PROBE_MEMO[k] = any(site_domain(site, p) and run_site(site, p) is not None for p in PROBE_TEXTS.get(cls, []))
    return _PROBE_MEMO[k]


class TextSites(BObl):
    id = 'C13.B.sites'
    property = 'C13'
    rule = ('a fixed database (project with 2 fields and note, enum with 2 noted items, table with 2 columns each with '
            'note/default/property, 2 named and noted indexes, table note and properties, a noted group, 2 sticky notes; '
            'per site only the element kinds rendered next to the site are kept) '
            'is built through the public classes with text T at one of 12 sites, rendered with .dbml and parsed back '
            '(allow_properties=True); the stored text at the site must be T and every other field of view() unchanged. '
            'Note sites take T in normal form only (no outer blank lines, common indentation 0, not blank); '
            'T non-empty.  Key = <class>@<site>: the first class of T (fixed priority order) whose fixed single-class '
            'probe text fails at that site; other@<site> if no probe explains the failure')
    bound = ('exhaustive: all T of length <= 3 (quick) / <= 4 (thorough) over {a, space, newline, \', ", \\, `} plus '
             '{ } [ ] # // /* */ é each once inside ab…cd, at 12 sites (quick 12 x 408, thorough 12 x 2 809 before the '
             'normal-form filter)')
    chunk = 16
    budget = {'quick': 28.0, 'thorough': 560.0}

    def exhaustive(self, tier):
        return True

    def cases(self, tier, seed):
        n = 3 if tier == 'quick' else 4
        texts = [t for t in strings_upto(SITE_ALPHABET, n) if t != '']
        texts += ['ab' + x + 'cd' for x in CARRIED]
        for site in SITE_NAMES:
            for t in texts:
                if site_domain(site, t):
                    yield [site, t]

    def check(self, recipe):
        site, t = recipe
        r = run_site(site, t)
        if r is None:
            return None
        mode, msg = r
        # the class is decided by fixed single-class probe texts at this site, never by the failing text alone:
        # a class explains the failure iff it occurs in t and its probe fails on the current tree
        present = label_classes(t) or ['blank' if t.strip() == '' else 'other']
        failing = [c for c in present if probe_fails(site, c)]
        if not failing:
            return (f'other@{site}', f'text {t!r} at site {site}: {mode}: {msg}; none of the single-class probes of '
                                     f'its classes {present} fails at this site')
        rest = t
        for c in failing:
            rest = without_label_class(rest, c)
        if rest != t and site_domain(site, rest):
            r2 = run_site(site, rest)
            if r2 is not None:
                return (f'other@{site}', f'text {t!r} at site {site} still fails with the characters of the failing '
                                         f'classes {failing} replaced by a ({rest!r}): {r2[0]}: {r2[1]}')
        return (f'{failing[0]}@{site}', f'text {t!r} at site {site}: {mode}: {msg} (class decided by the probe '
                                        f'{PROBE_TEXTS[failing[0]]!r})')


# =========================================================================== C13.B.sql

_COMMENT_HEAD = re.compile(r'COMMENT ON (TABLE|COLUMN) ((?:"[^"]*")(?:\.(?:"[^"]*"))*) IS ')


def _sql_note_case(site: str, t: str) -> Optional[Tuple[str, str]]:
    from spec.model import build_api
    m = {'tables': [{'name': 't', 'note': t if site == 'table_note' else 'yy',
                     'columns': [{'name': 'c1', 'type': 'int', 'note': t if site == 'column_note' else 'yy'},
                                 {'name': 'c2', 'type': 'int', 'note': 'zz'}]}]}
    db = build_api(m)
    table = db.tables[0]
    try:
        outputs = [('Database.sql', db.sql, {'TABLE': 1, 'COLUMN': 2})]
        if site == 'table_note':
            outputs.append(('table.note.sql', table.note.sql, {'TABLE': 1, 'COLUMN': 0}))
        else:
            outputs.append(('column.note.sql', table.columns[0].note.sql, {'TABLE': 0, 'COLUMN': 1}))
    except Exception as e:
        return 'sql-error', f'.sql raised {exc_line(e)} in {innermost_pydbml_function(e)}'
    want = sql_text_canon(t)
    for label, sql, counts in outputs:
        seen = {'TABLE': 0, 'COLUMN': 0}
        texts = []
        for st in split_sql_statements(sql):
            if not st.startswith('COMMENT ON'):
                if st.startswith('CREATE TABLE'):
                    continue
                return 'literal-broken', f'{label}: unexpected statement {_short(st)} in {_short(sql, 300)}'
            mt = _COMMENT_HEAD.match(st)
            if not mt:
                return 'literal-broken', f'{label}: malformed COMMENT statement {_short(st)}'
            lit = read_sql_literal(st, mt.end())
            if lit is None or lit[1] != len(st):
                return 'literal-broken', (f'{label}: the note text is not exactly one single-quoted literal up to the '
                                          f'end of the statement: {_short(st)}')
            seen[mt.group(1)] += 1
            texts.append(lit[0])
        if seen != counts:
            return 'literal-broken', f'{label}: expected COMMENT statements {counts}, found {seen} in {_short(sql, 300)}'
        # the literal read back is the text itself or the text with DBML line continuations removed,
        # in both cases with single quotes possibly turned into double quotes
        accepted = (want, t.replace("'", '"'))
        if not any(x.replace("'", '"') in accepted for x in texts):
            return 'text-changed', (f'{label}: no COMMENT literal carries the note text {t!r} (quotes neutralised, line '
                                    f'continuations removed: {want!r}); literals read back: {texts!r}')
    return None


def _sql_expr_case(site: str, t: str) -> Optional[Tuple[str, str]]:
    from pydbml.classes import Expression
    from spec.model import build_api
    if site == 'expr_default':
        m = {'tables': [{'name': 't', 'columns': [{'name': 'c1', 'type': 'int', 'default': {'kind': 'expr', 'value': t}},
                                                  {'name': 'c2', 'type': 'int'}]}]}
    else:
        m = {'tables': [{'name': 't', 'columns': [{'name': 'c1', 'type': 'int'}],
                         'indexes': [{'subjects': [{'expr': t}]}]}]}
    db = build_api(m)
    table = db.tables[0]
    wanted = '(' + t + ')'
    try:
        if site == 'expr_default':
            el_sql = ('column.sql', table.columns[0].sql)
            ex_sql = ('default.sql', table.columns[0].default.sql)
        else:
            el_sql = ('index.sql', table.indexes[0].sql)
            ex_sql = ('subject.sql', table.indexes[0].subjects[0].sql)
        db_sql = db.sql
    except Exception as e:
        return 'sql-error', f'.sql raised {exc_line(e)} in {innermost_pydbml_function(e)}'
    for label, s in (ex_sql, el_sql):
        if wanted not in s:
            return 'not-verbatim', f'{label} = {_short(s)} does not contain the expression text verbatim in parentheses {wanted!r}'
    # inside Database.sql the column list of CREATE TABLE is indented as a block: continuation lines of a
    # multi-line expression may gain leading blanks, which SQL does not distinguish; anything else must be verbatim
    pat = r'\n[ \t]*'.join(re.escape(x) for x in wanted.split('\n'))
    if not re.search(pat, db_sql):
        return 'not-verbatim', f'Database.sql = {_short(db_sql, 300)} does not contain {wanted!r}'
    return None


SQL_SITES = ['table_note', 'column_note', 'expr_default', 'expr_index']
SQL_EXTRA = ["';", "'--", "a';b", "\\'", "''", "a\\\nb", "x'); --"]


def run_sql(site: str, t: str):
    if site in ('table_note', 'column_note'):
        return _sql_note_case(site, t)
    return _sql_expr_case(site, t)


class SqlText(BObl):
    id = 'C13.B.sql'
    property = 'C13'
    rule = ('text T as the note of a table / of a column: every COMMENT ON statement of Database.sql and of note.sql is '
            'read with a small SQL scanner; the text must be exactly one single-quoted literal running to the end of '
            'the statement (no raw quote inside) and read back as T with quotes neutralised; T as an Expression default '
            '/ index subject: "(" T ")" occurs verbatim in the element\'s .sql and in Database.sql (continuation lines '
            'may gain block indentation there).  T non-empty')
    bound = ('exhaustive: all T of length <= 3 (quick) / <= 4 (thorough) over {a, space, newline, \', ", \\, `} plus 9 '
             'carried symbols and 7 injection-shaped texts, at 4 sites')
    chunk = 64
    budget = {'quick': 20.0, 'thorough': 200.0}

    def exhaustive(self, tier):
        return True

    def cases(self, tier, seed):
        n = 3 if tier == 'quick' else 4
        texts = [t for t in strings_upto(SITE_ALPHABET, n) if t != '']
        texts += ['ab' + x + 'cd' for x in CARRIED] + SQL_EXTRA
        for site in SQL_SITES:
            for t in texts:
                yield [site, t]

    def check(self, recipe):
        site, t = recipe
        r = run_sql(site, t)
        if r is None:
            return None
        mode, msg = r
        return (f'{mode}@{site}', f'text {t!r} at {site}: {msg}')


OBLIGATIONS = [NoteNormalisation(), LiteralStyles(), TextSites(), SqlText()]
