"""C18 extra: "the order depends only on the model" — the order is asked for before an edit as well, and
edits that keep the number of tables (flipping a reference's inline flag or direction, replacing a table)
must be reflected: same order as a freshly built equal database."""
from __future__ import annotations

import random
import re

from lib.bounded import BObl
from spec.model import build_api, view
from spec import gen_api

EDITS = ['ref-inline', 'ref-type', 'replace-table', 'rename-table']
CREATE = re.compile(r'^CREATE TABLE (.+?) \($', re.M)


def order(db):
    return CREATE.findall(db.sql)


def apply_edit(db, kind, rng):
    from pydbml.classes import Table, Column
    if kind == 'ref-inline' and db.refs:
        r = rng.choice(db.refs)
        if r.type != '<>':
            r.inline = not r._inline
            return True
    elif kind == 'ref-type' and db.refs:
        r = rng.choice(db.refs)
        r.type = {'>': '<', '<': '>', '-': '<', '<>': '<>'}[r.type]
        return r.type != '<>'
    elif kind == 'rename-table' and db.tables:
        t = rng.choice(db.tables)
        t.name = t.name + '_r'
        return True
    elif kind == 'replace-table' and db.tables:
        free = [t for t in db.tables if not any(t in (r.table1, r.table2) for r in db.refs)
                and not any(t in g.items for g in db.table_groups)]
        if not free:
            return False
        t = rng.choice(free)
        db.delete(t)
        db.add(Table('zz_new_' + str(rng.randrange(1000)), columns=[Column('id', 'int')]))
        return True
    return False


class OrderAfterEdit(BObl):
    id = 'C18.B.order-after-edit'
    property = 'C18'
    rule = ('API-built database; db.sql is evaluated, 1..3 seeded edits that keep the number of tables are applied, then '
            'the order of CREATE TABLE statements must equal that of a database rebuilt from the final view, and be a '
            'permutation of the current tables')
    bound = 'quick 500 / thorough 20000 seeded (model, edit sequence) pairs; models of gen_api.random_model'
    budget = {'quick': 12.0, 'thorough': 200.0}

    def cases(self, tier, seed):
        n = 500 if tier == 'quick' else 20000
        rng = random.Random(seed * 104729 + 5)
        for i in range(n):
            yield {'model_seed': rng.randrange(1 << 30), 'edits': [rng.choice(EDITS) for _ in range(rng.randrange(1, 4))],
                   'edit_seed': rng.randrange(1 << 30)}

    def check(self, recipe):
        m = gen_api.random_model(random.Random(recipe['model_seed']))
        try:
            db = build_api(m)
            order(db)
        except Exception:
            return None
        rng = random.Random(recipe['edit_seed'])
        applied = []
        for e in recipe['edits']:
            try:
                if apply_edit(db, e, rng):
                    applied.append(e)
            except Exception:
                return None
        if not applied:
            return None
        try:
            got = order(db)
            fresh = build_api(view(db))
            want = order(fresh)
        except Exception:
            return None
        if sorted(got) != sorted(want):
            return (f'not-a-permutation-after:{applied[-1]}', f'edits {applied}: {got} vs tables of the model {want}')
        if got != want:
            return (f'stale-order-after:{applied[-1]}', f'edits {applied}: order {got}, freshly built equal database {want}')
        return None


OBLIGATIONS = [OrderAfterEdit()]
