"""C16 -- element and database renderings agree and use the configured renderers.

C16.B.renderers: custom partial renderer classes (recording every call) configured through the
Database constructor or through the parser arguments; default renderers: element texts are
pieces of the database-level text.  C16.B.purity: rendering has no side effects.
"""
from __future__ import annotations

import random
from typing import Any, Dict, List, Optional, Tuple

from lib.bounded import BObl
from bounded._api_models import (MODELS, DOCS_PROPS, get_doc, valid_refs, elements, has_sql, pointer_snapshot,
                                 short, exc_name, text_or_class)

TOP_KINDS = ['table', 'enum', 'reference', 'table_group', 'project', 'sticky_note']
KIND_CLASS = {'table': 'Table', 'enum': 'Enum', 'reference': 'Reference', 'table_group': 'TableGroup',
              'project': 'Project', 'sticky_note': 'StickyNote', 'column': 'Column', 'index': 'Index',
              'enum_item': 'EnumItem'}
# which model types each custom renderer handles (the others must render as '')
HANDLED_SETS = {
    'A': {'sql': ['Table', 'Column'], 'dbml': ['Table', 'Column', 'Project', 'StickyNote']},
    'B': {'sql': ['Enum', 'Reference'], 'dbml': ['Enum', 'Reference', 'TableGroup']},
    'C': {'sql': [], 'dbml': []},
    'D': {'sql': ['Table', 'Column', 'Enum', 'Reference'],
          'dbml': ['Table', 'Column', 'Enum', 'Reference', 'TableGroup', 'Project', 'StickyNote']},
}


def make_renderers(handled: Dict[str, List[str]]):
    """Two fresh BaseRenderer subclasses with their own model_renderers, recording calls."""
    import pydbml.classes as C
    from pydbml.renderer.base import BaseRenderer
    log: List[Tuple[str, str, int]] = []

    def handler(lang, clsname):
        def h(model):
            log.append((lang, clsname, id(model)))
            return f'<{lang}:{clsname}:{getattr(model, "name", None)}>'
        return h

    class RecSQL(BaseRenderer):
        model_renderers: Dict[Any, Any] = {}

        @classmethod
        def render_db(cls, db):
            log.append(('sql', 'DB', id(db)))
            return 'SQLDB[' + '|'.join(cls.render(t) for t in db.tables) + ']'

    class RecDBML(BaseRenderer):
        model_renderers: Dict[Any, Any] = {}

        @classmethod
        def render_db(cls, db):
            log.append(('dbml', 'DB', id(db)))
            return 'DBMLDB[' + '|'.join(cls.render(t) for t in db.tables) + ']'

    for n in handled['sql']:
        RecSQL.model_renderers[getattr(C, n)] = handler('sql', n)
    for n in handled['dbml']:
        RecDBML.model_renderers[getattr(C, n)] = handler('dbml', n)
    return RecSQL, RecDBML, log


def build_db(source, **kwargs):
    from spec.model import build_api
    from pydbml import PyDBML
    if source[0] == 'api':
        return build_api(MODELS[source[1]], **kwargs)
    if source[0] == 'text':
        return PyDBML(TABLELESS[source[1]], **kwargs)
    return PyDBML(get_doc(source[1]), allow_properties=(source[1][0] == 'p'), **kwargs)


# databases without any table (an attached element must still render through the configured classes: an empty
# container is still the element's database)
TABLELESS = [
    "Enum level {\n  low\n  high [note: 'top']\n}\n",
    "Project p {\n  database_type: 'PostgreSQL'\n  Note: 'about'\n}\n\nNote reminder {\n  'text'\n}\n",
    "Enum s1.kind {\n  a\n  b\n}\n\nEnum other {\n  x\n}\n\nProject q {\n  author: 'me'\n}\n",
]


def sources():
    out = [['api', i] for i in range(len(MODELS))]
    out += [['text', i] for i in range(len(TABLELESS))]
    out += [['doc', r] for r in valid_refs()]
    out += [['doc', ['p', i]] for i in range(len(DOCS_PROPS))]
    return out


def check_custom(source, hset: str) -> Optional[Tuple[str, str]]:
    from pydbml.renderer.sql.default import DefaultSQLRenderer
    from pydbml.renderer.dbml.default import DefaultDBMLRenderer
    from pydbml.classes import Table, Column, Enum, Project, StickyNote
    handled = HANDLED_SETS[hset]
    RecSQL, RecDBML, log = make_renderers(handled)
    via = 'Database()' if source[0] == 'api' else 'parser arguments'
    try:
        db = build_db(source, sql_renderer=RecSQL, dbml_renderer=RecDBML)
    except Exception as e:
        return 'custom-renderer-build-failed', f'{source!r}: {exc_name(e)}: {e}'
    if db.sql_renderer is not RecSQL or db.dbml_renderer is not RecDBML:
        return f'renderer-classes-not-stored@{via.split("(")[0].split()[0]}', \
            f'{source!r}: db.sql_renderer={db.sql_renderer!r}, db.dbml_renderer={db.dbml_renderer!r}'
    # database level
    for lang, rcls in (('sql', RecSQL), ('dbml', RecDBML)):
        del log[:]
        k, got = text_or_class(lambda: getattr(db, lang))
        want = ('SQLDB[' if lang == 'sql' else 'DBMLDB[')
        if k != 'ok' or not got.startswith(want) or (lang, 'DB', id(db)) not in log:
            return f'db-not-through-configured-renderer:{lang}', short(
                f'{source!r} via {via}: db.{lang} = {got!r}; expected the text of the configured class\'s render_db', 600)
    # every attached top-level element and every column
    for kind, path, o in elements(db):
        if kind not in TOP_KINDS and kind != 'column':
            continue
        cname = KIND_CLASS[kind]
        for lang in (('sql', 'dbml') if has_sql(kind) else ('dbml',)):
            del log[:]
            k, got = text_or_class(lambda: getattr(o, lang))
            if cname in handled[lang]:
                want = f'<{lang}:{cname}:{getattr(o, "name", None)}>'
                if k != 'ok' or got != want or (lang, cname, id(o)) not in log:
                    return f'element-not-through-configured-renderer:{kind}.{lang}', short(
                        f'{source!r} via {via}: {path}.{lang} = {got!r}; expected {want!r} from the configured renderer', 600)
            else:
                if k != 'ok' or got != '':
                    return f'unhandled-type-not-empty:{kind}.{lang}', short(
                        f'{source!r} via {via}: {path}.{lang} = {got!r}; the configured renderer has no handler for {cname}, '
                        f'expected an empty string', 600)
    # detached elements use the defaults
    detached: List[Tuple[str, Any]] = []
    t = Table('detached_t', columns=[Column('id', 'int', pk=True), Column('v', 'varchar')])
    detached.append(('table', t))
    detached.append(('column', t.columns[0]))
    detached.append(('enum', Enum('detached_e', ['a', 'b'])))
    detached.append(('project', Project('detached_p', items={'k': 'v'})))
    detached.append(('sticky_note', StickyNote('detached_n', 'text')))
    removed = []
    try:
        if db.enums:
            removed.append(('enum', db.delete(db.enums[-1])))
        if db.project is not None:
            removed.append(('project', db.delete(db.project)))
        if db.table_groups:
            removed.append(('table_group', db.delete(db.table_groups[-1])))
    except Exception as e:
        return 'delete-raised', f'{source!r}: {exc_name(e)}: {e}'
    for kind, o in detached + removed:
        for lang, dflt in ((('sql', DefaultSQLRenderer), ('dbml', DefaultDBMLRenderer)) if has_sql(kind)
                           else (('dbml', DefaultDBMLRenderer),)):
            del log[:]
            a = text_or_class(lambda: getattr(o, lang))
            b = text_or_class(lambda: dflt.render(o))
            if a != b or log or (a[0] == 'ok' and a[1].startswith('<')):
                return f'detached-not-default:{kind}.{lang}', short(
                    f'{source!r}: detached {kind} .{lang} = {a[1]!r}; default renderer gives {b[1]!r}; custom calls: {log!r}', 600)
    return None


def delimited_positions(text: str, piece: str) -> List[int]:
    """Start offsets where `piece` occurs in text as a whole '\\n\\n'-delimited segment."""
    out = []
    start = 0
    while True:
        i = text.find(piece, start)
        if i < 0:
            break
        before_ok = i == 0 or text[max(0, i - 2):i] == '\n\n'
        j = i + len(piece)
        after_ok = j == len(text) or text[j:j + 2] == '\n\n'
        if before_ok and after_ok:
            out.append(i)
        start = i + 1
    return out


def decompose(text: str, pieces: List[str]) -> bool:
    """Is text == '\\n\\n'.join(some permutation of pieces)?  (backtracking; pieces are few)"""
    from functools import lru_cache
    n = len(pieces)
    if n == 0:
        return text == ''
    full = (1 << n) - 1

    @lru_cache(maxsize=None)
    def go(pos: int, used: int) -> bool:
        if used == full:
            return pos == len(text) + 2
        tried = set()
        for i in range(n):
            if used >> i & 1 or pieces[i] in tried:
                continue
            tried.add(pieces[i])
            p = pieces[i]
            if text.startswith(p, pos):
                e = pos + len(p)
                if e == len(text) or text.startswith('\n\n', e):
                    if go(e + 2, used | (1 << i)):
                        return True
        return False

    return go(0, 0)


def check_default(source) -> Optional[Tuple[str, str]]:
    try:
        db = build_db(source)
    except Exception as e:
        return 'default-build-failed', f'{source!r}: {exc_name(e)}: {e}'
    for lang in ('dbml', 'sql'):
        k, text = text_or_class(lambda: getattr(db, lang))
        if k != 'ok':
            return None     # refusals are C17's business
        pieces: List[Tuple[str, str, str]] = []
        for kind, path, o in elements(db):
            if kind not in TOP_KINDS:
                continue
            if lang == 'sql' and not has_sql(kind):
                continue
            if kind == 'reference' and o.inline:
                continue
            kk, t = text_or_class(lambda: getattr(o, lang))
            if kk != 'ok':
                return None
            pieces.append((kind, path, t))
        texts = [t for _, _, t in pieces]
        if len(texts) <= 16 and decompose(text, texts):
            continue
        for kind, path, t in pieces:
            mult = texts.count(t)
            occ = len(delimited_positions(text, t))
            if occ < mult:
                return f'element-text-missing:{lang}:{kind}', short(
                    f'{source!r}: {path}.{lang} = {t!r} occurs {occ} time(s) as a blank-line-delimited piece of db.{lang}, '
                    f'expected {mult}', 600)
            if occ > mult and t != '':
                return f'element-text-duplicated:{lang}:{kind}', short(
                    f'{source!r}: {path}.{lang} = {t!r} occurs {occ} times as a piece of db.{lang}, expected {mult}', 600)
    return None


class Renderers(BObl):
    id = 'C16.B.renderers'
    property = 'C16'
    chunk = 4
    rule = ('every source database (4 API-built models through Database(sql_renderer=, dbml_renderer=), ~45 documents '
            'through PyDBML(text, sql_renderer=, dbml_renderer=)) x 4 custom renderer pairs (BaseRenderer subclasses with '
            'their own model_renderers handling different subsets of types, recording calls): classes stored on the '
            'database; db.sql/db.dbml come from the configured render_db; every attached table, enum, reference, group, '
            'project, sticky note and every column renders through the configured handler or as \'\' when the type is not '
            'handled; fresh and removed elements render with the defaults and never call the custom handlers.  Plus, '
            'with the default renderers, each top-level element text (inline references excluded) must be a '
            'blank-line-delimited piece of the database text exactly as often as it occurs')
    bound = 'exhaustive over ~50 sources (three of them databases without tables) x (4 custom renderer pairs + default)'
    budget = {'quick': 20.0, 'thorough': 60.0}

    def cases(self, tier, seed):
        for s in sources():
            yield {'source': s, 'mode': 'default'}
            for h in sorted(HANDLED_SETS):
                yield {'source': s, 'mode': 'custom', 'handled': h}

    def exhaustive(self, tier):
        return True

    def check(self, recipe):
        if recipe['mode'] == 'default':
            return check_default(recipe['source'])
        return check_custom(recipe['source'], recipe['handled'])


def render_all(db, order) -> Dict[str, Tuple[str, str]]:
    els = {path: o for _, path, o in elements(db)}
    els['db'] = db
    out = {}
    for path, lang in order:
        o = els[path]
        out[f'{path}.{lang}'] = text_or_class(lambda: getattr(o, lang))
    return out


class Purity(BObl):
    id = 'C16.B.purity'
    property = 'C16'
    chunk = 4
    rule = ('a source database (API-built or parsed); the list of all (element or database, .sql/.dbml) renderings '
            'is shuffled by a seeded permutation and evaluated twice in that order, then once more in canonical order; '
            'before and after: view(db), the identity snapshot (lists, table_dict, back-pointers of every element, group '
            'items, reference columns) must be unchanged, and every rendering must give the same text (or raise the same '
            'class) each time, equal to what a fresh copy of the database gives when rendered in canonical order')
    bound = 'quick: ~50 sources x 4 seeded orders; thorough: x 40 orders'
    budget = {'quick': 20.0, 'thorough': 200.0}

    def cases(self, tier, seed):
        for s in sources():
            for i in range(4 if tier == 'quick' else 40):
                yield {'source': s, 'order': i, 'seed': seed}

    def check(self, recipe):
        from spec.model import view, diff
        source = recipe['source']
        try:
            db = build_db(source)
            fresh = build_db(source)
        except Exception as e:
            return 'build-failed', f'{source!r}: {exc_name(e)}: {e}'
        canon = []
        for kind, path, o in elements(db):
            canon.append((path, 'dbml'))
            if has_sql(kind):
                canon.append((path, 'sql'))
        canon += [('db', 'dbml'), ('db', 'sql')]
        order = list(canon)
        random.Random(f'c16-purity-{recipe["seed"]}-{recipe["order"]}').shuffle(order)
        v0 = view(db)
        s0 = pointer_snapshot(db)
        first = render_all(db, order)
        second = render_all(db, order)
        third = render_all(db, canon)
        reference = render_all(fresh, canon)
        v1 = view(db)
        s1 = pointer_snapshot(db)
        if v1 != v0:
            return 'rendering-changed-model', short(f'{source!r}: view(db) changed by rendering: ' + '; '.join(diff(v0, v1)[:3]), 600)
        if s1 != s0:
            ch = [k for k in s0 if s0[k] != s1[k]]
            return f'rendering-changed-structure:{ch[0]}', short(f'{source!r}: identity snapshot changed in {ch}', 600)
        for name, a, b in (('second evaluation', first, second), ('later canonical evaluation', first, third),
                           ('fresh copy rendered in canonical order', first, reference)):
            for key in a:
                if a[key] != b[key]:
                    lang = key.rsplit('.', 1)[1]
                    kind = 'db' if key.startswith('db.') else key.split('[')[0]
                    return f'rendering-not-repeatable:{kind}.{lang}', short(
                        f'{source!r}: {key} first gave {a[key][1]!r}, {name} gave {b[key][1]!r}; order #{recipe["order"]}', 600)
        return None


OBLIGATIONS = [Renderers(), Purity()]
