"""C12 -- all documented ways of supplying the source give the same database.

Seven routes (constructor with str / pathlib.Path / open text file, PyDBML.parse(text),
PyDBML().parse(text), PyDBML.parse_file with str path / Path / open file) x {0, 1, 2 leading
BOMs} x documents (ASCII and non-ASCII) x options.  Contract from the statement: with no BOM
and with one leading BOM every route yields the content obtained from the plain text (a
leading BOM is ignored on every route); options have the same effect on every route that
accepts them; with two BOMs the statement fixes no outcome, so the routes must only agree with
each other.  Other source types are refused with TypeError; PyDBML() returns an instance.
"""
from __future__ import annotations

import io
import os
import random
import tempfile
from pathlib import Path
from typing import Any, Dict, List, Optional, Tuple

from lib.bounded import BObl
from bounded._api_models import get_doc, valid_refs, bad_refs, short, exc_name, DOCS_PROPS

BOM = '\ufeff'
ROUTES = ['ctor-str', 'ctor-path', 'ctor-file', 'parse-static', 'parse-instance', 'parse_file-str',
          'parse_file-path', 'parse_file-file']
OPTION_ROUTES = ['ctor-str', 'ctor-path', 'ctor-file', 'parse-static', 'parse-instance']
OPTION_SETS = ['default', 'props', 'renderers', 'props+renderers']


def custom_renderers():
    from pydbml.renderer.base import BaseRenderer

    class MySQL(BaseRenderer):
        model_renderers: Dict[Any, Any] = {}

        @classmethod
        def render_db(cls, db):
            return 'MYSQL:' + ','.join(t.name for t in db.tables)

    class MyDBML(BaseRenderer):
        model_renderers: Dict[Any, Any] = {}

        @classmethod
        def render_db(cls, db):
            return 'MYDBML:' + ','.join(t.name for t in db.tables)

    return MySQL, MyDBML


def run_route(route: str, text: str, path: str, kwargs: Dict[str, Any]):
    """Call one entry point.  `path` is a file containing `text` encoded as UTF-8."""
    from pydbml import PyDBML
    if route == 'ctor-str':
        return PyDBML(text, **kwargs)
    if route == 'ctor-path':
        return PyDBML(Path(path), **kwargs)
    if route == 'ctor-file':
        with open(path, encoding='utf8') as f:
            return PyDBML(f, **kwargs)
    if route == 'parse-static':
        return PyDBML.parse(text, **kwargs)
    if route == 'parse-instance':
        return PyDBML().parse(text, **kwargs)
    if route == 'parse_file-str':
        return PyDBML.parse_file(path)
    if route == 'parse_file-path':
        return PyDBML.parse_file(Path(path))
    if route == 'parse_file-file':
        with open(path, encoding='utf8') as f:
            return PyDBML.parse_file(f)
    raise ValueError(route)


def observe(route, text, path, kwargs, sqlr, dbmlr) -> Tuple[str, Any]:
    from spec.model import view
    try:
        db = run_route(route, text, path, kwargs)
    except Exception as e:
        return 'exc', exc_name(e)
    v = view(db)
    extra = {
        'sql_renderer': 'custom' if db.sql_renderer is sqlr else type(db.sql_renderer).__name__ + ':' + getattr(db.sql_renderer, '__name__', '?'),
        'dbml_renderer': 'custom' if db.dbml_renderer is dbmlr else type(db.dbml_renderer).__name__ + ':' + getattr(db.dbml_renderer, '__name__', '?'),
    }
    try:
        extra['sql'] = db.sql
        extra['dbml'] = db.dbml
    except Exception as e:
        extra['render'] = exc_name(e)
    return 'ok', (v, extra)


def describe(o) -> str:
    if o[0] == 'exc':
        return f'raises {o[1]}'
    v, extra = o[1]
    return (f'parses ({len(v["tables"])} tables, allow_properties={v["allow_properties"]}, '
            f'sql_renderer={extra["sql_renderer"]}, dbml_renderer={extra["dbml_renderer"]})')


class Routes(BObl):
    id = 'C12.B.routes'
    property = 'C12'
    chunk = 2
    rule = ('one document (ASCII pool, non-ASCII pool, documents with properties, invalid documents) x number of '
            'leading BOMs (0, 1, 2) x option set (default, allow_properties, custom renderer classes, both); the text is '
            'written as UTF-8 to a temporary file; all 8 call shapes (3 constructor sources, PyDBML.parse, '
            'PyDBML().parse, 3 parse_file sources; option sets other than default only on the 5 that accept options) '
            'are run; reference = PyDBML.parse of the BOM-free text with the same options; 0 or 1 BOM: every route must '
            'equal the reference (view, renderer classes stored, db.sql/db.dbml text, or exception class); 2 BOMs: '
            'routes must agree with each other')
    bound = 'exhaustive over ~57 documents x 3 BOM counts x 4 option sets (all tiers); 8 routes each'
    budget = {'quick': 22.0, 'thorough': 120.0}

    def docs(self):
        return valid_refs() + [['p', i] for i in range(len(DOCS_PROPS))] + bad_refs()

    def cases(self, tier, seed):
        for d in self.docs():
            for boms in (0, 1, 2):
                for opt in OPTION_SETS:
                    yield {'doc': d, 'boms': boms, 'opt': opt}

    def exhaustive(self, tier):
        return True

    def check(self, recipe):
        doc, boms, opt = recipe['doc'], recipe['boms'], recipe['opt']
        plain = get_doc(doc)
        text = BOM * boms + plain
        sqlr, dbmlr = custom_renderers()
        kwargs: Dict[str, Any] = {}
        if 'props' in opt:
            kwargs['allow_properties'] = True
        if 'renderers' in opt:
            kwargs['sql_renderer'] = sqlr
            kwargs['dbml_renderer'] = dbmlr
        routes = ROUTES if opt == 'default' else OPTION_ROUTES
        nonascii = any(ord(ch) > 127 for ch in plain)
        with tempfile.TemporaryDirectory(prefix='c12_') as td:
            path = os.path.join(td, 'doc.dbml')
            with open(path, 'wb') as f:
                f.write(text.encode('utf8'))
            ppath = os.path.join(td, 'plain.dbml')
            with open(ppath, 'wb') as f:
                f.write(plain.encode('utf8'))
            reference = observe('parse-static', plain, ppath, kwargs, sqlr, dbmlr)
            got = {r: observe(r, text, path, kwargs, sqlr, dbmlr) for r in routes}
        tag = f'{"non-ascii" if nonascii else "ascii"}'
        if reference[0] == 'ok' and 'renderers' in opt:
            extra = reference[1][1]
            if extra['sql_renderer'] != 'custom' or extra['dbml_renderer'] != 'custom' or \
                    not str(extra.get('sql', '')).startswith('MYSQL:') or not str(extra.get('dbml', '')).startswith('MYDBML:'):
                return 'renderer-option-ignored:parse-static', short(f'PyDBML.parse(text, sql_renderer=..., dbml_renderer=...) '
                                                                     f'did not configure the database: {extra!r}', 600)
        if reference[0] == 'ok' and ('props' in opt) != reference[1][0]['allow_properties']:
            return 'props-option-ignored:parse-static', f'allow_properties={"props" in opt} not reflected in the database'
        if boms <= 1:
            for r in routes:
                if got[r] != reference:
                    what = 'bom-not-ignored' if boms == 1 else 'route-differs'
                    if got[r][0] == 'ok' and reference[0] == 'ok' and got[r][1][0] == reference[1][0]:
                        what = 'option-effect-differs'
                    return f'{what}:{r}', short(
                        f'{r} on {doc!r} with {boms} BOM(s), options {opt}: {describe(got[r])}; reference '
                        f'(PyDBML.parse of the BOM-free text): {describe(reference)} [{tag}]', 600)
            return None
        # two BOMs: only mutual agreement
        first = got[routes[0]]
        for r in routes[1:]:
            if got[r] != first:
                groups: Dict[str, List[str]] = {}
                for rr in routes:
                    groups.setdefault(describe(got[rr]), []).append(rr)
                return 'double-bom-routes-disagree', short(
                    f'{doc!r} prefixed with two BOMs, options {opt}: ' + ' | '.join(f'{v}: {k}' for k, v in groups.items()), 600)
        return None


class OtherSources(BObl):
    id = 'C12.B.other-sources'
    property = 'C12'
    chunk = 4
    rule = ('the constructor called with a source that is neither str, Path nor an open text file (int, float, bytes, '
            'bytearray, list, tuple, dict, BytesIO, StringIO-free binary file, bool, object()) must raise TypeError, '
            'with and without options; PyDBML() without source must return a PyDBML instance')
    bound = 'exhaustive over 12 source kinds x 2 option settings + the no-argument call'
    budget = {'quick': 10.0, 'thorough': 20.0}

    KINDS = ['int', 'float', 'bytes', 'bytearray', 'list', 'tuple', 'dict', 'BytesIO', 'binary-file', 'bool', 'object',
             'set']

    def cases(self, tier, seed):
        yield {'kind': 'none'}
        for k in self.KINDS:
            for props in (False, True):
                yield {'kind': k, 'props': props}

    def exhaustive(self, tier):
        return True

    def check(self, recipe):
        from pydbml import PyDBML
        kind = recipe['kind']
        if kind == 'none':
            try:
                p = PyDBML()
            except Exception as e:
                return 'no-arg-constructor-raises', f'PyDBML() raised {exc_name(e)}: {e}'
            if not isinstance(p, PyDBML):
                return 'no-arg-constructor-not-instance', f'PyDBML() returned {p!r}'
            return None
        src_text = 'Table a {\n  id int\n}\n'
        td = None
        fh = None
        try:
            if kind == 'binary-file':
                td = tempfile.TemporaryDirectory(prefix='c12_')
                path = os.path.join(td.name, 'b.dbml')
                with open(path, 'wb') as f:
                    f.write(src_text.encode('utf8'))
                fh = open(path, 'rb')
                src: Any = fh
            else:
                src = {'int': 5, 'float': 1.5, 'bytes': src_text.encode('utf8'), 'bytearray': bytearray(src_text.encode('utf8')),
                       'list': [src_text], 'tuple': (src_text,), 'dict': {'source': src_text},
                       'BytesIO': io.BytesIO(src_text.encode('utf8')), 'bool': True, 'object': object(),
                       'set': {src_text}}[kind]
            try:
                r = PyDBML(src, allow_properties=True) if recipe.get('props') else PyDBML(src)
            except TypeError:
                return None
            except Exception as e:
                return f'other-source-wrong-exception:{kind}', f'PyDBML({kind}) raised {exc_name(e)}: {e}; expected TypeError'
            return f'other-source-accepted:{kind}', f'PyDBML({kind}) returned {r!r}; expected TypeError'
        finally:
            if fh is not None:
                fh.close()
            if td is not None:
                td.cleanup()


OBLIGATIONS = [Routes(), OtherSources()]
