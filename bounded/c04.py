"""C04 (bounded): every relationship becomes exactly one correctly directed FOREIGN KEY.

Obligation `C04.B.fk`: for a database built through the public classes from abstract model m,
the foreign keys read back from `db.sql` (inline clauses with their holding CREATE TABLE, and
ALTER TABLE ... ADD FOREIGN KEY statements) must be exactly those `ddl(m)` derives from the
statement of C04; many-to-many references must produce the stated join table.
"""
from __future__ import annotations

import random
from typing import Optional, Tuple

from lib.bounded import BObl
from spec.model import normalize
from spec.gen_api import FAMILIES, random_model, compact
from spec.read_ddl import compare, Mismatch
from bounded.c03 import render_and_read, element_read, show, brace_site


def pick(ms):
    if not ms:
        return None
    return sorted(ms, key=lambda x: (x.key.startswith('element:'), x.key, x.message))[0]


class EveryRefOnce(BObl):
    id = 'C04.B.fk'
    property = 'C04'
    rule = ('API-built databases: exhaustive families (one reference: 4 kinds x inline x 3 names x 3x3 actions x '
            'single/composite x 5 schema pairs, self-references, all 6x6 action pairs; two references between the same '
            'tables: (kind, inline)^2 x orientation; three tables with one reference of every kind in all 24 orders x 16 '
            'inline settings; identifier shapes with spaces/dots; a brace-bearing string at each site reaching a '
            'reference\'s SQL) plus seeded random models with up to 6 references. Non-trivial = at least one reference. '
            'Oracle: foreign keys read by read_ddl(db.sql) vs the statement (holder side, column order, CONSTRAINT, '
            'actions, inline xor ALTER, join table shape); then Reference.sql of non-inline references.')
    bound = 'quick: 3044 enumerated + 4000 random models; thorough: 3044 enumerated + 80000 random; <=4 tables, <=6 refs, <=3 columns per side'
    budget = {'quick': 22.0, 'thorough': 280.0}
    chunk = 48
    families = ('refs', 'ref_pairs', 'ref_mix', 'names', 'braces')
    n_random = {'quick': 4000, 'thorough': 80000}

    def cases(self, tier, seed):
        for fam in self.families:
            for m in FAMILIES[fam]():
                yield {'fam': fam, 'm': compact(m)}
        rng = random.Random(seed * 1000003 + 4)
        for k in range(self.n_random.get(tier, 4000)):
            m = random_model(rng, max_refs=6, enums=(k % 3 == 0))
            yield {'fam': 'random', 'm': compact(m)}

    def nontrivial(self, recipe):
        return bool(recipe['m'].get('refs'))

    def check(self, recipe) -> Optional[Tuple[str, str]]:
        m = normalize(recipe['m'])
        db, stmts, fail = render_and_read(m, recipe)
        if db is None:
            return fail
        ms = [x for x in compare(m, stmts, parts=('fks',)) if x.prop == 'C04']
        seen = {x.key for x in ms}
        # element level: a non-inline reference's own .sql is its ALTER TABLE (or join table + two ALTERs)
        for r, rm in zip(db.refs, m['refs']):
            if rm['inline'] and rm['type'] != '<>':
                continue
            st, f = element_read(r, 'reference.sql', m, recipe)
            if f:
                ms.append(Mismatch('C04', f[0], f[1]))
            if st is not None:
                sub = dict(m, refs=[rm])
                for x in compare(sub, st, parts=('fks',)):
                    if x.prop == 'C04' and x.key not in seen:
                        ms.append(Mismatch('C04', 'element:reference.sql:' + x.key, x.message))
        x = pick(ms)
        if x is None:
            return None
        site = brace_site(m)
        if site:      # the str.format defect class: user text with braces rewritten, not a direction/placement bug
            return f'format-mangled@{site}', (x.key + ': ' + x.message[:300] + f' | model {show(recipe, 250)}')
        return x.key, (x.message[:330] + f' | model {show(recipe, 250)}')


OBLIGATIONS = [EveryRefOnce()]
