"""C18 (bounded): SQL creates a table before any table that references it inline.

Obligation `C18.B.order`: tables T0..T(n-1) are added in index order; every edge (h, t, kind) is
an inline reference that puts a FOREIGN KEY clause into Th's CREATE TABLE referencing Tt
(`>`: Th.f > Tt.id, `-`: Th.f - Tt.id, `<`: Tt.id < Th.f).  In `read_ddl(db.sql)` the CREATE
TABLE of every FOREIGN KEY clause's target must come before the CREATE TABLE holding the clause
(acyclic graphs only); the CREATE TABLEs are a permutation of db.tables; the text is the same on a
second call (all graphs) and for a freshly rebuilt equal model (all graphs on <=4 tables, a fixed
quarter of those on 5).

Failure keys name the relation between the two tables of the violated edge, with
held(x) = number of inline FOREIGN KEY clauses table x holds:
  holder-count>target-count | equal-counts-holder-earlier | equal-counts-holder-later |
  holder-count<target-count            (no one-to-one reference held by either table)
  one-to-one-not-counted:<relation>    (either table holds a `-` reference; relation over the
                                        `>`/`<` clauses only)
  shared-name-cross-schema             (either table shares its name with a table of another schema)
  not-a-permutation, nondeterministic:same-object, nondeterministic:rebuilt-model,
  target-not-created, crash:<exception>@db.sql, unreadable:<where>
When several edges of one graph are violated, the class least expected to fail is reported
(`<` and `holder-later` relations first), so a new ordering bug is not hidden behind a listed one.
"""
from __future__ import annotations

import itertools
import random
from typing import Any, Dict, Iterator, List, Optional, Tuple

from lib.bounded import BObl
from spec.model import build_api, normalize
from spec.read_ddl import read_ddl, ReadError

KINDS = '><-'


def orientations(n: int) -> Iterator[Tuple[List[Tuple[int, int]], bool]]:
    """Every simple directed graph without 2-cycles on n labelled nodes, with its acyclicity."""
    pairs = [(i, j) for i in range(n) for j in range(i + 1, n)]
    for orient in itertools.product((0, 1, 2), repeat=len(pairs)):
        edges = [((i, j) if o == 1 else (j, i)) for (i, j), o in zip(pairs, orient) if o]
        yield edges, acyclic(n, edges)


def acyclic(n: int, edges) -> bool:
    indeg = [0] * n
    for _, t in edges:
        indeg[t] += 1
    stack = [v for v in range(n) if indeg[v] == 0]
    seen = 0
    while stack:
        v = stack.pop()
        seen += 1
        for h, t in edges:
            if h == v:
                indeg[t] -= 1
                if indeg[t] == 0:
                    stack.append(t)
    return seen == n


def edges_of(recipe) -> List[Tuple[int, int, str]]:
    ty = recipe.get('ty', '>')
    return [(h, t, ty[k] if len(ty) > 1 else ty) for k, (h, t) in enumerate(recipe['e'])]


def model_of(recipe) -> Dict[str, Any]:
    n = recipe['n']
    names = recipe.get('names') or ['T%d' % i for i in range(n)]
    schemas = recipe.get('schemas') or ['public'] * n
    edges = edges_of(recipe)
    tables, refs = [], []
    for i in range(n):
        cols = [{'name': 'id', 'type': 'int', 'pk': True}]
        cols += [{'name': 'f%d' % k, 'type': 'int'} for k, (h, _, _) in enumerate(edges) if h == i]
        tables.append({'name': names[i], 'schema': schemas[i], 'columns': cols})
    for k, (h, t, ty) in enumerate(edges):
        hk, tk = [schemas[h], names[h]], [schemas[t], names[t]]
        if ty == '<':
            refs.append({'type': '<', 't1': tk, 'c1': ['id'], 't2': hk, 'c2': ['f%d' % k], 'inline': True})
        else:
            refs.append({'type': ty, 't1': hk, 'c1': ['f%d' % k], 't2': tk, 'c2': ['id'], 'inline': True})
    return normalize({'tables': tables, 'refs': refs})


_UNEXPECTED_FIRST = ['holder-count<target-count', 'equal-counts-holder-later']


def edge_class(recipe, h: int, t: int) -> str:
    edges = edges_of(recipe)
    n = recipe['n']
    names = recipe.get('names') or list(range(n))
    if list(names).count(names[h]) > 1 or list(names).count(names[t]) > 1:
        return 'shared-name-cross-schema'
    held_all = [sum(1 for e in edges if e[0] == i) for i in range(n)]
    held_mm = [sum(1 for e in edges if e[0] == i and e[2] in '><') for i in range(n)]
    one = held_all[h] != held_mm[h] or held_all[t] != held_mm[t]
    cnt = held_mm if one else held_all
    if cnt[h] > cnt[t]:
        rel = 'holder-count>target-count'
    elif cnt[h] < cnt[t]:
        rel = 'holder-count<target-count'
    else:
        rel = 'equal-counts-holder-earlier' if h < t else 'equal-counts-holder-later'
    return ('one-to-one-not-counted:' if one else '') + rel


def _rank(key: str) -> Tuple[int, str]:
    base = key.split(':')[-1]
    return (0 if base in _UNEXPECTED_FIRST else 1 if key != 'shared-name-cross-schema' else 2, key)


def _resolve(parts) -> Tuple[str, str]:
    return ('public', parts[0]) if len(parts) == 1 else (parts[0], parts[1])


class ReferencedFirst(BObl):
    id = 'C18.B.order'
    property = 'C18'
    rule = ('tables T0..Tn-1 added in index order, every edge an inline reference (FOREIGN KEY clause inside the holder). '
            'Acyclic graphs: every labelled DAG on <=4 tables with every assignment of >/</- to its edges when it has <=3 '
            'edges, else the three uniform assignments plus seeded mixed ones; labelled DAGs on 5 tables with all edges `>` '
            '(quick: all with <=6 edges and a seeded 15% of the denser; thorough: all 29281), all `<` / all `-` for <=4 '
            'edges (thorough: all), every mixed assignment for <=2 edges (thorough: <=3) plus seeded mixed ones; 3 tables '
            'with a name shared across schemas. Cyclic graphs on <=3 tables (2-cycles, self-reference): permutation and '
            'determinism clauses only. Non-trivial = at least one edge. Oracle: order of CREATE TABLE statements in '
            'read_ddl(db.sql) vs the FOREIGN KEY clauses read from it.')
    bound = ('quick: all 572 DAGs on <=4 tables, 20036 of the 29281 DAGs on 5 tables, 38381 graph x kind cases; '
             'thorough: all DAGs on <=5 tables, 175838 cases; <=5 tables, <=10 inline references')
    budget = {'quick': 23.0, 'thorough': 285.0}
    chunk = 128

    def cases(self, tier, seed):
        thorough = tier == 'thorough'
        rng = random.Random(seed * 1000003 + 18)
        # cyclic graphs: only permutation / determinism
        yield {'n': 1, 'e': [[0, 0]], 'ty': '>', 'cyclic': True}
        for ty in KINDS:
            yield {'n': 2, 'e': [[0, 1], [1, 0]], 'ty': ty, 'cyclic': True}
            yield {'n': 3, 'e': [[0, 1], [1, 0], [2, 1]], 'ty': ty, 'cyclic': True}
        for n in (3,):
            for edges, ok in orientations(n):
                if not ok:
                    for ty in KINDS:
                        yield {'n': n, 'e': [list(e) for e in edges], 'ty': ty, 'cyclic': True}
        # a name shared by two schemas
        for names, schemas in ((['t', 't', 'x'], ['s1', 's2', 'public']), (['x', 't', 't'], ['public', 'public', 's1']),
                               (['t', 'x', 't'], ['s1', 's1', 'public'])):
            for edges, ok in orientations(3):
                if ok:
                    for ty in KINDS:
                        yield {'n': 3, 'e': [list(e) for e in edges], 'ty': ty, 'names': names, 'schemas': schemas}
        # DAGs on <= 4 tables
        for n in (1, 2, 3, 4):
            for edges, ok in orientations(n):
                if not ok:
                    continue
                e = [list(x) for x in edges]
                if len(e) <= 3:
                    for tys in itertools.product(KINDS, repeat=len(e)):
                        yield {'n': n, 'e': e, 'ty': ''.join(tys) if len(set(tys)) > 1 else (tys[0] if tys else '>')}
                else:
                    for ty in KINDS:
                        yield {'n': n, 'e': e, 'ty': ty}
                    for _ in range(6 if thorough else 2):
                        yield {'n': n, 'e': e, 'ty': ''.join(rng.choice(KINDS) for _ in e)}
        # DAGs on 5 tables
        full_mixed = 3 if thorough else 2
        uniform_all = 10 if thorough else 4
        for edges, ok in orientations(5):
            if not ok or not edges:
                continue
            e = [list(x) for x in edges]
            if not thorough and len(e) > 6 and rng.random() >= 0.15:
                continue          # quick: every DAG with <=6 edges, a seeded 15% of the denser ones
            yield {'n': 5, 'e': e, 'ty': '>'}
            if len(e) <= uniform_all:
                yield {'n': 5, 'e': e, 'ty': '<'}
                yield {'n': 5, 'e': e, 'ty': '-'}
            if len(e) <= full_mixed:
                for tys in itertools.product(KINDS, repeat=len(e)):
                    if len(set(tys)) > 1:
                        yield {'n': 5, 'e': e, 'ty': ''.join(tys)}
            elif thorough or rng.random() < 0.10:
                for _ in range(2 if thorough else 1):
                    yield {'n': 5, 'e': e, 'ty': ''.join(rng.choice(KINDS) for _ in e)}

    def nontrivial(self, recipe):
        return bool(recipe['e'])

    def check(self, recipe) -> Optional[Tuple[str, str]]:
        m = model_of(recipe)
        db = build_api(m)
        try:
            sql1 = db.sql
            sql2 = db.sql
            # rebuilt-model determinism: every graph on <=4 tables, a fixed quarter of those on 5 (cost)
            rebuild = recipe['n'] <= 4 or (len(recipe['e']) + sum(h for h, _ in recipe['e'])) % 4 == 0
            sql3 = build_api(m).sql if rebuild else sql1
        except Exception as e:     # noqa: BLE001 - the code under test
            return f'crash:{type(e).__name__}@db.sql', f'Database.sql raised {type(e).__name__}: {str(e)[:150]!r}; graph {recipe}'
        if sql1 != sql2:
            return 'nondeterministic:same-object', f'two reads of db.sql differ; graph {recipe}'
        if sql1 != sql3:
            return 'nondeterministic:rebuilt-model', f'an equal model rebuilt through the API renders differently; graph {recipe}'
        try:
            stmts = read_ddl(sql1)
        except ReadError as e:
            return f'unreadable:{e.where}', f'emitted SQL is not readable DDL ({e}); graph {recipe}'
        keys = [(t['schema'], t['name']) for t in m['tables']]
        created = [s for s in stmts if s['kind'] == 'create_table']
        order = [_resolve(s['name']) for s in created]
        if sorted(order) != sorted(keys):
            return 'not-a-permutation', f'CREATE TABLE statements {order} are not a permutation of db.tables {keys}; graph {recipe}'
        if recipe.get('cyclic'):
            return None
        pos = {k: p for p, k in enumerate(order)}
        bad: List[Tuple[str, str]] = []
        for p, s in enumerate(created):
            for fk in s['foreign_keys']:
                target = _resolve(fk['ref_table'])
                if target not in pos:
                    bad.append(('target-not-created', f'FOREIGN KEY in {s["name"]} references {fk["ref_table"]}, never created'))
                    continue
                if pos[target] > p:
                    h, t = keys.index(order[p]), keys.index(target)
                    held = [sum(1 for e in recipe['e'] if e[0] == i) for i in range(recipe['n'])]
                    bad.append((edge_class(recipe, h, t),
                                f'CREATE TABLE {s["name"]} (statement {p}, holds {held[h]} inline FKs) contains FOREIGN KEY ... '
                                f'REFERENCES {fk["ref_table"]}, whose CREATE TABLE comes later (statement {pos[target]}, holds '
                                f'{held[t]}); order read: {[o[1] for o in order]}, db.tables: {[k[1] for k in keys]}'))
        if not bad:
            return None
        key, msg = sorted(bad, key=lambda b: (_rank(b[0]), b[1]))[0]
        return key, f'{msg[:470]}; graph {recipe}'[:600]


OBLIGATIONS = [ReferencedFirst()]
