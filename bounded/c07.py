"""C07 (bounded): malformed text is never accepted.

Contract on `PyDBML(text)`:
    requires  text == fault(surface(m, sp), site, kind)        (spec/fault.py, spec/surface.py)
    ensures   PyDBML(text) raises pyparsing.ParseBaseException  (never returns, never another exception class)

`C07.B.faults` enumerates sites x kinds of every base document (see spec/fault.py for why each kind is invalid
whatever surrounds the site).  `C07.B.no-leak`: after a rejected document, a later parse of a valid document gives
the same view as before the rejection, and the rejected document's own well-formed original still parses to the
same view.

Keys:  accepted:<kind>@<site-class>            the faulted document was parsed into a Database
       wrong-exception:<ExceptionClass>:<kind> rejected, but not with a pyparsing exception
       leak:<field>                            a later parse differs in view()[field]
       leak:later-parse-raises:<ExceptionClass>
"""
from __future__ import annotations

import json
import random
from typing import Any, Dict, List, Optional, Tuple

from lib.bounded import BObl
from spec.gen import random_model
from spec.model import normalize, view, diff
from spec.surface import surface
from spec import fault as F

# ------------------------------------------------------------------ base documents


def _col(name, type='int', **kw):
    d = {'name': name, 'type': type}
    d.update(kw)
    return d


def sink_model(allow: bool, multiline: bool = True) -> Dict[str, Any]:
    """A hand-written document that has every body and settings-list class of spec/fault.py.  Without `multiline`
    it has no triple-quoted string in the documentation spelling (so an unterminated ''' applies at every site)."""
    ml = 'l1\nl2' if multiline else 'one line'
    props = [['owner', 'team a']] if allow else []
    m = {
        'allow_properties': allow,
        'project': {'name': 'shop', 'items': [['database_type', 'PostgreSQL'], ['author', 'me']],
                    'note': 'project note', 'comment': 'project comment'},
        'enums': [{'schema': 'public', 'name': 'status', 'comment': 'enum comment',
                   'items': [{'name': 'active', 'note': 'is active'}, {'name': 'gone', 'comment': 'item comment'},
                             {'name': 'out of stock'}]}],
        'tables': [
            {'name': 'users', 'alias': 'U', 'note': 'users table', 'header_color': '#3498DB', 'comment': 'table comment',
             'properties': props,
             'columns': [_col('id', pk=True, autoinc=True), _col('name', 'varchar(255)', not_null=True, note='full name'),
                         _col('email', 'text', unique=True, comment='trailing'),
                         _col('state', {'enum': ['public', 'status']}, default={'kind': 'str', 'value': 'active'}),
                         _col('plain', 'decimal(10, 2)'), _col('tags', 'text[]')],
             'indexes': [{'subjects': [{'col': 'email'}], 'unique': True, 'name': 'ix_email', 'type': 'btree'},
                         {'subjects': [{'col': 'id'}, {'col': 'name'}], 'comment': 'composite'},
                         {'subjects': [{'expr': 'lower(name)'}], 'note': 'expr index'},
                         {'subjects': [{'col': 'name'}]}]},
            {'schema': 'core', 'name': 'orders', 'note': ml,
             'columns': [_col('id', pk=True), _col('user_id', properties=[['col_prop', 'x']] if allow else []),
                         _col('user_name', 'varchar(255)'), _col('total', 'double precision', default={'kind': 'float', 'value': '1.5'})]},
            {'name': 'items', 'columns': [_col('id'), _col('order_id'), _col('a b', 'text')]},
        ],
        'refs': [
            {'type': '>', 'inline': True, 't1': ['core', 'orders'], 'c1': ['user_id'], 't2': ['public', 'users'], 'c2': ['id']},
            {'type': '>', 'inline': False, 'name': 'fk_items', 'on_delete': 'cascade', 'on_update': 'no action',
             'comment': 'ref comment', 't1': ['public', 'items'], 'c1': ['order_id'], 't2': ['core', 'orders'], 'c2': ['id']},
            {'type': '<>', 'inline': False, 't1': ['public', 'items'], 'c1': ['id'], 't2': ['public', 'users'], 'c2': ['id']},
            {'type': '-', 'inline': False, 'on_delete': 'set null', 't1': ['core', 'orders'], 'c1': ['user_id', 'user_name'],
             't2': ['public', 'users'], 'c2': ['id', 'name']},
        ],
        'table_groups': [{'name': 'g1', 'items': [['public', 'users'], ['core', 'orders']], 'note': 'group note',
                          'color': '#a1B2c3', 'comment': 'group comment'},
                         {'name': 'g2', 'items': [['public', 'items']]}],
        'sticky_notes': [{'name': 'n1', 'text': 'sticky text'}, {'name': 'n2', 'text': ml}],
    }
    return normalize(m)


# spellings of the hand-written document: the documentation spelling, long forms everywhere, short forms everywhere
FIXED_SP = [
    {'seed': 0, 'pin': ['*']},
    {'seed': 1, 'pin': ['*'], 'force': {'refform': 'long', 'ml': 'multi', 'noteform': 'block', 'notepos': 'body'}},
    {'seed': 2, 'pin': ['*'], 'force': {'refform': 'short', 'ml': 'one', 'noteform': 'colon', 'notepos': 'settings',
                                         'cpos': 'above'}},
    {'seed': 4, 'wild': 1.0},
]


FIXED_DOCS = [(False, 0), (True, 1), (False, 2), (True, 3)]


def base_docs(tier: str, seed: int) -> List[List[Any]]:
    """Document descriptors: ['fixed', allow, k] | ['rand', model seed, size, allow, spelling seed]."""
    docs: List[List[Any]] = []
    for allow, k in FIXED_DOCS:
        docs.append(['fixed', allow, k])
    n = {'quick': 20, 'thorough': 1000}.get(tier, 20)
    rng = random.Random(seed * 7919 + 7)
    for i in range(n):
        size = ('tiny', 'small', 'small', 'medium')[i % 4] if tier != 'quick' else ('tiny', 'small', 'tiny', 'small', 'tiny')[i % 5]
        docs.append(['rand', rng.randrange(10 ** 9), size, i % 4 == 3, rng.randrange(10 ** 6)])
    return docs


_CACHE: Dict[str, Any] = {}


def load_doc(desc) -> Tuple[Dict[str, Any], str]:
    key = json.dumps(desc)
    hit = _CACHE.get(key)
    if hit is None:
        if desc[0] == 'fixed':
            m = sink_model(bool(desc[1]), multiline=desc[2] not in (0, 2))
            text = surface(m, FIXED_SP[desc[2]])
        else:
            _k, mseed, size, allow, spseed = desc
            m = random_model(random.Random(mseed), size, bool(allow))
            text = surface(m, spseed)
        if len(_CACHE) > 8:
            _CACHE.clear()
        hit = _CACHE[key] = (m, text)
    return hit


_FAULTS: Dict[str, Any] = {}


def doc_faults(desc, text: str) -> Dict[Tuple[str, str, str], F.Fault]:
    key = json.dumps(desc)
    hit = _FAULTS.get(key)
    if hit is None:
        if len(_FAULTS) > 8:
            _FAULTS.clear()
        hit = _FAULTS[key] = {f.ident(): f for f in F.faults(text)}
    return hit


# kinds whose variants are interchangeable tokens: in the quick tier one variant per site, rotating
ROTATE = {'stray-token': 4, 'malformed-colour': 3, 'unknown-column-setting': 2, 'unknown-index-setting': 2,
          'unknown-index-type': 2, 'unknown-ref-action': 2, 'unknown-ref-operator': 2}


def select_faults(text: str, tier: str, salt: int) -> List[F.Fault]:
    fs = F.faults(text)
    if tier != 'quick':
        return fs
    out = []
    groups: Dict[Tuple[str, str], List[F.Fault]] = {}
    for f in fs:
        if f.kind in ROTATE:
            groups.setdefault((f.kind, f.site), []).append(f)
        else:
            out.append(f)
    for k, (key, lst) in enumerate(sorted(groups.items())):
        out.append(lst[(k + salt) % len(lst)])
    return out


def parse(text: str, allow: bool):
    from pydbml import PyDBML
    return PyDBML(text, allow_properties=True) if allow else PyDBML(text)


def _show(text: str, f: F.Fault, width: int = 420) -> str:
    lo = max(0, f.pos - width // 2)
    hi = min(len(text), f.pos + len(f.insert) + width // 2)
    return ('...' if lo else '') + text[lo:hi] + ('...' if hi < len(text) else '')


class FaultsRejected(BObl):
    id = 'C07.B.faults'
    property = 'C07'
    rule = ('base documents: a hand-written document holding every body and settings-list class (4 spellings, 2 of them with '
            'allow_properties) plus seeded random models through surface(); every site of spec/fault.py (start, before each '
            'top-level element, every line start of every body incl. before its closing brace, after "[" / each "," / '
            'before "]" of every settings list, every body / list / column / reference itself, end of input) x every '
            'fault kind that applies there (19 kinds: stray token, extra/missing { } [ ], unterminated single/double/'
            'triple string, column without type, unknown column/index setting, index type, ref operator, ref action, '
            'malformed colour).  Oracle: pyparsing.ParseBaseException and nothing else.')
    bound = ('quick: 4 fixed + 20 random (tiny/small) documents, sites x kinds complete, one rotating variant per '
             '(site, kind); thorough: 4 fixed + 1000 random (tiny..medium), all variants')
    budget = {'quick': 25.0, 'thorough': 1500.0}
    chunk = 48

    def exhaustive(self, tier):
        return True

    def cases(self, tier, seed):
        for k, desc in enumerate(base_docs(tier, seed)):
            _m, text = load_doc(desc)
            for f in select_faults(text, tier, k):
                yield {'doc': desc, 'kind': f.kind, 'variant': f.variant, 'site': f.site}

    def check(self, recipe) -> Optional[Tuple[str, str]]:
        m, text = load_doc(recipe['doc'])
        f = doc_faults(recipe['doc'], text).get((recipe['kind'], recipe['variant'], recipe['site']))
        if f is None:
            raise KeyError(f'fault does not apply: {recipe}')
        bad = f.apply(text)
        import pyparsing as pp
        allow = m['allow_properties']
        try:
            parse(bad, allow)
        except pp.ParseBaseException:
            return None
        except BaseException as e:        # noqa: rejected, but with the wrong class
            if isinstance(e, (KeyboardInterrupt, SystemExit)):
                raise
            try:                          # a base document that is itself refused this way is C01's business
                parse(text, allow)
            except BaseException as e0:
                if type(e0) is type(e):
                    return None
            return (f'wrong-exception:{type(e).__name__}:{f.kind}',
                    f'expected a pyparsing.ParseBaseException for fault {f.kind}/{f.variant} at {f.site}, observed '
                    f'{type(e).__name__}: {str(e)[:120]} | text around the fault: {_show(bad, f, 300)!r}')
        return (f'accepted:{f.kind}@{f.cls}',
                f'fault {f.kind}/{f.variant} at {f.site} ({f.insert!r} inserted, {f.delete} chars deleted at offset '
                f'{f.pos}) was parsed into a Database; expected pyparsing.ParseBaseException | text around the fault: '
                f'{_show(bad, f)!r}')


VIEW_FIELDS = ('allow_properties', 'project', 'enums', 'tables', 'refs', 'table_groups', 'sticky_notes')


class NoLeak(BObl):
    id = 'C07.B.no-leak'
    property = 'C07'
    rule = ('sampled (document, fault) pairs of C07.B.faults; sequence in one process: parse a valid document B '
            '(view v0), parse the faulted document A\' (must not return), parse B again (v1) and the well-formed '
            'original A (vA) ; oracle: v1 == v0 and vA == view of A parsed before the rejection.  Non-trivial = the '
            'faulted document was rejected.')
    bound = 'quick: 24 documents x 12 sampled faults; thorough: 1004 documents x 12'
    budget = {'quick': 12.0, 'thorough': 600.0}
    chunk = 16
    per_doc = 12

    def cases(self, tier, seed):
        docs = base_docs(tier, seed)
        rng = random.Random(seed * 31 + 70)
        for k, desc in enumerate(docs):
            _m, text = load_doc(desc)
            fs = F.faults(text)
            other = docs[(k + 1 + rng.randrange(len(docs) - 1)) % len(docs)]
            for f in rng.sample(fs, min(self.per_doc, len(fs))):
                yield {'doc': desc, 'other': other, 'kind': f.kind, 'variant': f.variant, 'site': f.site}

    def check(self, recipe) -> Optional[Tuple[str, str]]:
        m, text = load_doc(recipe['doc'])
        f = doc_faults(recipe['doc'], text).get((recipe['kind'], recipe['variant'], recipe['site']))
        if f is None:
            raise KeyError(f'fault does not apply: {recipe}')
        bad = f.apply(text)
        m2, text2 = load_doc(recipe['other'])
        try:
            v0 = view(parse(text2, m2['allow_properties']))
            va0 = view(parse(text, m['allow_properties']))
        except Exception:
            return None                   # a well-formed document is refused: C01's business
        try:
            parse(bad, m['allow_properties'])
            return None                   # accepted: reported by C07.B.faults
        except BaseException as e:
            if isinstance(e, (KeyboardInterrupt, SystemExit)):
                raise
        for label, t, allow, before in (('another valid document', text2, m2['allow_properties'], v0),
                                        ('the well-formed original', text, m['allow_properties'], va0)):
            try:
                after = view(parse(t, allow))
            except Exception as e:
                return (f'leak:later-parse-raises:{type(e).__name__}',
                        f'after rejecting a document with fault {f.kind}/{f.variant} at {f.site}, parsing {label} '
                        f'raises {type(e).__name__}: {str(e)[:160]} (it parsed before) | fault context: {_show(bad, f, 200)!r}')
            if after != before:
                field = next((k for k in VIEW_FIELDS if after.get(k) != before.get(k)), 'other')
                return (f'leak:{field}',
                        f'after rejecting a document with fault {f.kind}/{f.variant} at {f.site}, the view of {label} '
                        f'changed: {"; ".join(diff(after, before)[:3])[:300]} (after != before) | fault context: '
                        f'{_show(bad, f, 200)!r}')
        return None


OBLIGATIONS = [FaultsRejected(), NoLeak()]
