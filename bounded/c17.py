"""C17 -- inconsistent models are refused at render time, not rendered as bogus output.

Every case builds a deliberately inconsistent object through the public classes (constructor
or later assignment / delete methods), calls the rendering or lookup named in the statement
and requires the exception class named there.
"""
from __future__ import annotations

from typing import Any, Dict, List, Optional, Tuple

from lib.bounded import BObl
from bounded._api_models import short, exc_name


def _db_with(*objs):
    from pydbml.database import Database
    db = Database()
    for o in objs:
        db.add(o)
    return db


# --------------------------------------------------------------------------------------
# missing required attributes -> AttributeMissingError from .sql
# --------------------------------------------------------------------------------------

MISSING = ['table.name', 'column.name', 'column.type', 'enum.name', 'enum.schema', 'enum_item.name', 'index.table']
HOW = ['ctor', 'assign']
WHERE = ['detached', 'attached']
TARGET = ['self', 'container', 'database']


def build_missing(what: str, how: str, where: str):
    """Return dict with the defective element and its containers."""
    from pydbml.classes import Table, Column, Enum, EnumItem, Index
    ctor = how == 'ctor'
    out: Dict[str, Any] = {}
    if what == 'table.name':
        t = Table(None if ctor else 't', columns=[Column('id', 'int')])
        if where == 'attached':
            out['database'] = _db_with(t)
        if not ctor:
            t.name = None
        out['self'] = t
    elif what in ('column.name', 'column.type'):
        if what == 'column.name':
            c = Column(None if ctor else 'c', 'int')
        else:
            c = Column('c', None if ctor else 'int')
        t = Table('t', columns=[Column('id', 'int'), c])
        if where == 'attached':
            out['database'] = _db_with(t)
        elif where == 'detached':
            pass
        if not ctor:
            if what == 'column.name':
                c.name = None
            else:
                c.type = None
        out['self'] = c
        out['container'] = t
    elif what in ('enum.name', 'enum.schema'):
        if what == 'enum.name':
            e = Enum(None if ctor else 'e', ['a', 'b'])
        else:
            e = Enum('e', ['a', 'b'], schema=None) if ctor else Enum('e', ['a', 'b'])
        if where == 'attached':
            out['database'] = _db_with(e)
        if not ctor:
            if what == 'enum.name':
                e.name = None
            else:
                e.schema = None
        out['self'] = e
    elif what == 'enum_item.name':
        it = EnumItem(None if ctor else 'a')
        e = Enum('e', [it, EnumItem('b')])
        if where == 'attached':
            out['database'] = _db_with(e)
        if not ctor:
            it.name = None
        out['self'] = it
        out['container'] = e
    elif what == 'index.table':
        c = Column('id', 'int')
        t = Table('t', columns=[c])
        if ctor:
            ix = Index([c])                 # never added to a table
        else:
            ix = Index([c], unique=True)
            t.add_index(ix)
            t.delete_index(ix)              # removed again: not attached to a table any more
        if where == 'attached':
            out['database'] = _db_with(t)
        out['self'] = ix
    else:
        raise ValueError(what)
    return out


class Refusals(BObl):
    id = 'C17.B.refusals'
    property = 'C17'
    chunk = 8
    rule = ('(1) element kind x required attribute unset (table/column/enum/enum item name, column type, enum schema, '
            'index without table) x via constructor or via later assignment/removal x table or enum attached to a Database '
            'or not x rendering the element itself, its container (table/enum) or the whole database: .sql must raise '
            'AttributeMissingError; (2) references with a column whose table is None (left, right, both sides; 4 types; '
            'inline or not; reached by never attaching the column or by delete_column; in a database or not): .sql and '
            '.dbml raise TableNotFoundError; (3) a side mixing columns of two tables (left/right, inline or not, other '
            'side single or composite): .table1/.table2 and .dbml raise DBMLError; (4) composite inline reference .dbml '
            'raises DBMLError; (5) detached Table.get_refs() raises UnknownDatabaseError and detached Column.get_refs() '
            'raises TableNotFoundError (never attached, or removed again)')
    bound = 'exhaustive over the listed finite case table (~330 cases), same in both tiers'
    budget = {'quick': 15.0, 'thorough': 30.0}

    def cases(self, tier, seed):
        for what in MISSING:
            for how in HOW:
                for where in WHERE:
                    for target in TARGET:
                        if target == 'container' and what not in ('column.name', 'column.type', 'enum_item.name'):
                            continue
                        if target == 'database' and (where != 'attached' or what == 'index.table'):
                            continue
                        yield {'family': 'missing', 'what': what, 'how': how, 'where': where, 'target': target}
        for side in ('left', 'right', 'both'):
            for typ in ('>', '<', '-', '<>'):
                for inline in (False, True):
                    for how in ('never-attached', 'delete_column', 'delete_column(pos)'):
                        for indb in (False, True):
                            for lang in ('sql', 'dbml'):
                                yield {'family': 'ref-detached', 'side': side, 'type': typ, 'inline': inline, 'how': how,
                                       'indb': indb, 'lang': lang}
        for side in ('left', 'right'):
            for inline in (False, True):
                for other in (1, 2):
                    for typ in ('>', '<', '-', '<>'):
                        for ask in ('table1', 'table2', 'dbml'):
                            for indb in (False, True):
                                yield {'family': 'ref-mixed', 'side': side, 'inline': inline, 'other': other, 'type': typ,
                                       'ask': ask, 'indb': indb}
        for typ in ('>', '<', '-'):
            for n in (2, 3):
                for indb in (False, True):
                    yield {'family': 'composite-inline', 'type': typ, 'n': n, 'indb': indb}
        for how in ('never-added', 'deleted', 'deleted-generic', 'deleted-by-equal-twin', 'deleted-generic-by-equal-twin'):
            yield {'family': 'table-get_refs', 'how': how}
        for how in ('never-added', 'delete_column', 'delete_column(pos)', 'table-detached'):
            yield {'family': 'column-get_refs', 'how': how}

    def exhaustive(self, tier):
        return True

    # ---------------------------------------------------------------------------------
    def check(self, recipe):
        fam = recipe['family']
        try:
            return getattr(self, '_' + fam.replace('-', '_'))(recipe)
        except _Setup as e:
            return 'setup-refused:' + fam, short(f'building the inconsistent model for {recipe!r} was refused: {e}', 600)

    def _expect(self, fn, classes, key, what, recipe):
        names = [c.__name__ for c in classes]
        try:
            r = fn()
        except classes:
            return None
        except Exception as e:
            return f'{key}:raises-{exc_name(e)}', short(f'{what}: expected {" or ".join(names)}, raised {exc_name(e)}: {e}; case {recipe!r}', 600)
        return f'{key}:renders', short(f'{what}: expected {" or ".join(names)}, but it returned {r!r}; case {recipe!r}', 600)

    def _missing(self, r):
        from pydbml.exceptions import AttributeMissingError
        try:
            objs = build_missing(r['what'], r['how'], r['where'])
        except Exception as e:
            raise _Setup(f'{exc_name(e)}: {e}')
        target = objs[r['target']]
        key = f'missing:{r["what"]}@{r["target"]}'
        return self._expect(lambda: target.sql, (AttributeMissingError,), key,
                            f'.sql of the {r["target"]} of a {r["what"].split(".")[0]} whose {r["what"].split(".")[1]} is unset '
                            f'({r["how"]}, {r["where"]})', r)

    def _tables(self):
        from pydbml.classes import Table, Column
        a = Table('a', columns=[Column('id', 'int'), Column('x', 'int'), Column('y', 'int')])
        b = Table('b', columns=[Column('id', 'int'), Column('x', 'int'), Column('y', 'int')])
        c = Table('c', columns=[Column('id', 'int'), Column('x', 'int')])
        return a, b, c

    def _ref_detached(self, r):
        from pydbml.classes import Column, Reference
        from pydbml.exceptions import TableNotFoundError
        a, b, _ = self._tables()
        left, right = a['x'], b['id']
        try:
            if r['how'] == 'never-attached':
                if r['side'] in ('left', 'both'):
                    left = Column('x', 'int')
                if r['side'] in ('right', 'both'):
                    right = Column('id', 'int')
            ref = Reference(r['type'], left, right, inline=r['inline'])
            if r['indb']:
                if r['how'] == 'never-attached' and r['side'] == 'both':
                    return None       # such a reference cannot be added to a database (none of its tables is there)
                _db_with(a, b, ref)
            if r['how'] != 'never-attached':
                for side, tbl, col in (('left', a, left), ('right', b, right)):
                    if r['side'] in (side, 'both'):
                        if r['how'] == 'delete_column':
                            tbl.delete_column(col)
                        else:
                            tbl.delete_column(tbl.columns.index(col))
        except Exception as e:
            raise _Setup(f'{exc_name(e)}: {e}')
        key = f'ref-detached:{r["lang"]}'
        return self._expect(lambda: getattr(ref, r['lang']), (TableNotFoundError,), key,
                            f'.{r["lang"]} of a reference whose {r["side"]} column(s) have no table', r)

    def _ref_mixed(self, r):
        from pydbml.classes import Reference
        from pydbml.exceptions import DBMLError
        a, b, c = self._tables()
        mixed = [a['x'], c['x']]
        other = [b['id']] if r['other'] == 1 else [b['x'], b['y']]
        try:
            if r['side'] == 'left':
                ref = Reference(r['type'], mixed, other, inline=r['inline'])
            else:
                ref = Reference(r['type'], other, mixed, inline=r['inline'])
            if r['indb']:
                _db_with(a, b, c, ref)
        except Exception as e:
            raise _Setup(f'{exc_name(e)}: {e}')
        ask = r['ask']
        if ask == 'dbml':
            shape = 'inline' if ref.inline else 'not-inline'
            key = f'ref-mixed:dbml:{shape}:{r["side"]}-mixed'
        else:
            key = f'ref-mixed:{ask}'
        return self._expect(lambda: getattr(ref, ask), (DBMLError,), key,
                            f'.{ask} of a reference whose {r["side"]} side mixes columns of tables a and c', r)

    def _composite_inline(self, r):
        from pydbml.classes import Reference
        from pydbml.exceptions import DBMLError
        a, b, _ = self._tables()
        n = r['n']
        try:
            ref = Reference(r['type'], a.columns[:n], b.columns[:n], inline=True)
            if r['indb']:
                _db_with(a, b, ref)
        except Exception as e:
            raise _Setup(f'{exc_name(e)}: {e}')
        return self._expect(lambda: ref.dbml, (DBMLError,), 'composite-inline:dbml',
                            f'.dbml of an inline reference over {n} columns per side', r)

    def _table_get_refs(self, r):
        from pydbml.exceptions import UnknownDatabaseError
        a, b, _ = self._tables()
        try:
            if r['how'] == 'deleted':
                db = _db_with(a, b)
                db.delete_table(a)
            elif r['how'] == 'deleted-generic':
                db = _db_with(a, b)
                db.delete(a)
            elif r['how'] in ('deleted-by-equal-twin', 'deleted-generic-by-equal-twin'):
                # removal asked for through an equal but distinct object: the table that leaves the database (the
                # stored one; it is the only equal candidate) is the one that must be detached
                db = _db_with(a, b)
                a2, _b2, _x = self._tables()
                if a2 is a or not (a2 == a):
                    raise _Setup('twin tables are not equal-but-distinct')
                (db.delete_table if r['how'] == 'deleted-by-equal-twin' else db.delete)(a2)
                if any(t is a for t in db.tables):
                    raise _Setup('the stored table was not removed')
        except Exception as e:
            raise _Setup(f'{exc_name(e)}: {e}')
        return self._expect(lambda: a.get_refs(), (UnknownDatabaseError,), 'table-get_refs',
                            f'get_refs() of a table that is in no database ({r["how"]})', r)

    def _column_get_refs(self, r):
        from pydbml.classes import Column
        from pydbml.exceptions import TableNotFoundError, UnknownDatabaseError
        a, b, _ = self._tables()
        classes: Tuple[Any, ...] = (TableNotFoundError,)
        try:
            if r['how'] == 'never-added':
                col = Column('free', 'int')
            elif r['how'] == 'delete_column':
                _db_with(a, b)
                col = a['x']
                a.delete_column(col)
            elif r['how'] == 'delete_column(pos)':
                _db_with(a, b)
                col = a.columns[1]
                a.delete_column(1)
            else:       # column of a table that is itself in no database: either refusal fits the statement
                col = a['x']
                classes = (TableNotFoundError, UnknownDatabaseError)
        except Exception as e:
            raise _Setup(f'{exc_name(e)}: {e}')
        return self._expect(lambda: col.get_refs(), classes, 'column-get_refs',
                            f'get_refs() of a detached column ({r["how"]})', r)


class _Setup(Exception):
    pass


OBLIGATIONS = [Refusals()]
